import P0f.Model.Impersonate
/-
  C14 — impersonation keeps the connection identity and every admissible hint.

  All theorems are about `impTcp`, the model of `impersonate_tcp` (P0f/Model/Impersonate.lean), for
  every signature, base packet, parameters and every outcome of the random draws (`Choices`).
  "Admissible" is defined by what the matcher needs (`MssAdmissible`, `WsAdmissible`, …), not by the
  code's range tests; the `…_iff` lemmas prove the two coincide.
-/
namespace P0f

/-! ### flag arithmetic on the 9-bit flag word -/

def flagMasks : List Nat := [1, 2, 4, 8, 16, 32, 64, 128, 256]

theorem flag_ops_table :
    (List.range 512).all (fun v => flagMasks.all fun m => flagMasks.all fun m' =>
      (bit (setBit v m) m' == (bit v m' || m' == m)) && (bit (clearBit v m) m' == (bit v m' && m' != m))
        && decide (setBit v m < 512) && decide (clearBit v m < 512)) = true := by
  decide +kernel

theorem flag_ops {v m m' : Nat} (hv : v < 512) (hm : m ∈ flagMasks) (hm' : m' ∈ flagMasks) :
    bit (setBit v m) m' = (bit v m' || m' == m) ∧ bit (clearBit v m) m' = (bit v m' && m' != m) ∧
      setBit v m < 512 ∧ clearBit v m < 512 := by
  have h := flag_ops_table
  rw [List.all_eq_true] at h
  have h1 := h v (List.mem_range.mpr hv)
  rw [List.all_eq_true] at h1
  have h2 := h1 m hm
  rw [List.all_eq_true] at h2
  have h3 := h2 m' hm'
  simp only [Bool.and_eq_true, beq_iff_eq, decide_eq_true_eq] at h3
  exact ⟨h3.1.1.1, h3.1.1.2, h3.1.2, h3.2⟩

theorem setBit_lt {v m : Nat} (hv : v < 512) (hm : m ∈ flagMasks) : setBit v m < 512 :=
  (flag_ops hv hm hm).2.2.1
theorem clearBit_lt {v m : Nat} (hv : v < 512) (hm : m ∈ flagMasks) : clearBit v m < 512 :=
  (flag_ops hv hm hm).2.2.2
theorem bit_setBit_ne {v m m' : Nat} (hv : v < 512) (hm : m ∈ flagMasks) (hm' : m' ∈ flagMasks) (hne : m' ≠ m) :
    bit (setBit v m) m' = bit v m' := by
  rw [(flag_ops hv hm hm').1]; simp [hne]
theorem bit_clearBit_ne {v m m' : Nat} (hv : v < 512) (hm : m ∈ flagMasks) (hm' : m' ∈ flagMasks) (hne : m' ≠ m) :
    bit (clearBit v m) m' = bit v m' := by
  rw [(flag_ops hv hm hm').2.1]; simp [hne]

/-- every field of a successful run, in terms of the per-field functions of the model -/
theorem impTcp_ok (s : Sig) (b : Base) (hops : Int) (mtu : Nat) (up : Option Int) (c : Choices) (o : OutPkt)
    (h : impTcp s b hops mtu up c = .ok o) :
    ∃ win, impWindow s b (impOptions s b up c) mtu c = .ok win ∧
      o = { ipVer := b.ipVer, src := b.src, dst := b.dst, ttl := (s.ttl : Int) - hops,
            tos := if s.quirks .ecn then c.ecn else 0,
            ipId := if b.ipVer == 6 then 0 else impIpId s b c,
            ipFlags := if b.ipVer == 6 then 0 else impIpFlags s b.ipFlags,
            ipFrag := if b.ipVer == 6 then 0 else b.ipFrag,
            ipOptLen := if b.ipVer == 6 then 0 else s.olen,
            fl := if b.ipVer == 6 then (if s.quirks .flow then c.fl else 0) else 0,
            sport := b.sport, dport := b.dport, seq := impSeq s b c, ack := impAck s b c,
            flags := impFlags s b.flags, urp := impUrp s b c,
            window := win, opts := impOptions s b up c, payload := impPayload s b c } := by
  unfold impTcp at h
  split at h
  · simp at h
  · simp only at h
    split at h
    · simp at h
    · rename_i win hwin
      simp only [Except.ok.injEq] at h
      exact ⟨win, hwin, h.symm⟩

abbrev outFlags := impFlags

theorem impTcp_flags (s : Sig) (b : Base) (hops : Int) (mtu : Nat) (up : Option Int) (c : Choices) (o : OutPkt)
    (h : impTcp s b hops mtu up c = .ok o) : o.flags = outFlags s b.flags := by
  obtain ⟨win, _, rfl⟩ := impTcp_ok s b hops mtu up c o h
  rfl

/-- a chain of set / clear steps with masks other than `m'` keeps bit `m'` -/
theorem outFlags_keeps (s : Sig) (f m' : Nat) (hf : f < 512) (hm' : m' ∈ flagMasks)
    (hack : m' = F_ACK → s.quirks .nzAck = false ∧ s.quirks .zeroAck = false)
    (hurg : m' = F_URG → s.quirks .nzUrg = false ∧ s.quirks .urg = false)
    (h1 : m' ≠ F_ECE) (h2 : m' ≠ F_CWR) (h3 : m' ≠ F_NS) (h4 : m' ≠ F_PSH) :
    bit (outFlags s f) m' = bit f m' := by
  have mA : F_ACK ∈ flagMasks := by decide
  have mU : F_URG ∈ flagMasks := by decide
  have mE : F_ECE ∈ flagMasks := by decide
  have mC : F_CWR ∈ flagMasks := by decide
  have mN : F_NS ∈ flagMasks := by decide
  have mP : F_PSH ∈ flagMasks := by decide
  unfold outFlags impFlags impFlagsB
  -- step 1
  have s1 : ∃ f1, f1 < 512 ∧ bit f1 m' = bit f m' ∧
      f1 = (if s.quirks .nzAck then clearBit f F_ACK else if s.quirks .zeroAck then setBit f F_ACK else f) := by
    refine ⟨_, ?_, ?_, rfl⟩
    · split
      · exact clearBit_lt hf mA
      · split
        · exact setBit_lt hf mA
        · exact hf
    · by_cases hA : m' = F_ACK
      · obtain ⟨a1, a2⟩ := hack hA; simp [a1, a2]
      · split
        · exact bit_clearBit_ne hf mA hm' hA
        · split
          · exact bit_setBit_ne hf mA hm' hA
          · rfl
  obtain ⟨f1, hf1, hb1, he1⟩ := s1
  rw [← he1]
  have s2 : ∃ f2, f2 < 512 ∧ bit f2 m' = bit f m' ∧
      f2 = (if s.quirks .nzUrg then clearBit f1 F_URG else if s.quirks .urg then setBit f1 F_URG else f1) := by
    refine ⟨_, ?_, ?_, rfl⟩
    · split
      · exact clearBit_lt hf1 mU
      · split
        · exact setBit_lt hf1 mU
        · exact hf1
    · by_cases hU : m' = F_URG
      · obtain ⟨a1, a2⟩ := hurg hU; simp [a1, a2, hb1]
      · split
        · rw [bit_clearBit_ne hf1 mU hm' hU, hb1]
        · split
          · rw [bit_setBit_ne hf1 mU hm' hU, hb1]
          · exact hb1
  obtain ⟨f2, hf2, hb2, he2⟩ := s2
  simp only
  rw [← he2]
  have l1 := clearBit_lt hf2 mE
  have l2 := clearBit_lt l1 mC
  have l3 := clearBit_lt l2 mN
  have b3 : bit (clearBit (clearBit (clearBit f2 F_ECE) F_CWR) F_NS) m' = bit f m' := by
    rw [bit_clearBit_ne l2 mN hm' h3, bit_clearBit_ne l1 mC hm' h2, bit_clearBit_ne hf2 mE hm' h1, hb2]
  split
  · rw [bit_setBit_ne l3 mP hm' h4, b3]
  · rw [bit_clearBit_ne l3 mP hm' h4, b3]

/-! ### identity -/

/-- **C14, identity**: source and destination addresses and ports, and the IP version, are the base's -/
theorem imp_keeps_identity (s : Sig) (b : Base) (hops : Int) (mtu : Nat) (up : Option Int) (c : Choices) (o : OutPkt)
    (h : impTcp s b hops mtu up c = .ok o) :
    o.ipVer = b.ipVer ∧ o.src = b.src ∧ o.dst = b.dst ∧ o.sport = b.sport ∧ o.dport = b.dport := by
  obtain ⟨win, _, rfl⟩ := impTcp_ok s b hops mtu up c o h
  exact ⟨rfl, rfl, rfl, rfl, rfl⟩

/-- **C14, SYN / SYN+ACK nature**: the SYN bit is always the base's; the ACK bit is the base's unless the
    signature dictates it with `ack+` / `ack-` (then it is clear / set accordingly) -/
theorem imp_keeps_syn_nature (s : Sig) (b : Base) (hops : Int) (mtu : Nat) (up : Option Int) (c : Choices) (o : OutPkt)
    (hb : b.flags < 512) (h : impTcp s b hops mtu up c = .ok o) :
    bit o.flags F_SYN = bit b.flags F_SYN ∧
    (s.quirks .nzAck = false → s.quirks .zeroAck = false → bit o.flags F_ACK = bit b.flags F_ACK) := by
  rw [impTcp_flags s b hops mtu up c o h]
  refine ⟨?_, ?_⟩
  · exact outFlags_keeps s b.flags F_SYN hb (by decide) (fun h => absurd h (by decide)) (fun h => absurd h (by decide)) (by decide) (by decide) (by decide) (by decide)
  · intro h1 h2
    exact outFlags_keeps s b.flags F_ACK hb (by decide) (fun _ => ⟨h1, h2⟩) (fun h => absurd h (by decide)) (by decide) (by decide) (by decide) (by decide)

theorem imp_seq (s : Sig) (b : Base) (hops : Int) (mtu : Nat) (up : Option Int) (c : Choices) (o : OutPkt)
    (h : impTcp s b hops mtu up c = .ok o) :
    o.seq = if s.quirks .zeroSeq then 0 else if b.seq == 0 then c.seq else b.seq := by
  obtain ⟨win, _, rfl⟩ := impTcp_ok s b hops mtu up c o h
  rfl

/-- **C14, sequence number**: non-zero unless `seq-` is requested, and the base's own whenever that is non-zero -/
theorem imp_seq_nonzero (s : Sig) (b : Base) (hops : Int) (mtu : Nat) (up : Option Int) (c : Choices) (o : OutPkt)
    (h : impTcp s b hops mtu up c = .ok o) (hq : s.quirks .zeroSeq = false) (hc : choicesOk s b up c = true) :
    o.seq ≠ 0 ∧ (b.seq ≠ 0 → o.seq = b.seq) := by
  rw [imp_seq s b hops mtu up c o h]
  simp only [hq, Bool.false_eq_true, ↓reduceIte]
  by_cases hb : b.seq = 0
  · simp only [hb, beq_self_eq_true, ↓reduceIte, ne_eq, not_true_eq_false, false_implies, and_true]
    unfold choicesOk at hc
    simp only [Bool.and_eq_true, Bool.or_eq_true, decide_eq_true_eq] at hc
    have := hc.1.1.1.1.1.2
    simp [hq, hb] at this
    omega
  · have : (b.seq == 0) = false := by simpa using hb
    simp [this, hb]

/-! ### hints: admissibility in terms of what the matcher needs -/

theorem inRange_some (lo hi h : Int) : inRange lo hi (some h) = if lo ≤ h ∧ h ≤ hi then some h.toNat else none := rfl

theorem inRange_none_of_ne (lo hi h : Int) (hne : inRange lo hi (some h) ≠ some h.toNat) :
    inRange lo hi (some h) = none := by
  rw [inRange_some] at hne ⊢
  split
  · rename_i hr; simp [hr] at hne
  · rfl


/-- using `h` as the MSS cannot prevent the match: it fits the 16-bit option, and with an `mss*N`
    window p0f must be able to find the multiplier (MSS ≥ 100) and the window `h*N` must fit 16 bits -/
def MssAdmissible (s : Sig) (h : Int) : Prop :=
  0 ≤ h ∧ h ≤ 65535 ∧ (s.wtype = .mss → 100 ≤ h ∧ h * s.wsize ≤ 65535)

theorem mss_inRange_iff (s : Sig) (h : Int) (hw : s.wtype = .mss → 0 < s.wsize) :
    inRange (mssBounds s).1 (mssBounds s).2 (some h) = some h.toNat ↔ MssAdmissible s h := by
  unfold MssAdmissible
  by_cases hm : s.wtype = .mss
  · have hpos : (0 : Int) < s.wsize := by exact_mod_cast hw hm
    have hb : mssBounds s = (100, 65535 / (s.wsize : Int)) := by simp [mssBounds, hm]
    rw [hb]
    have key : h ≤ 65535 / (s.wsize : Int) ↔ h * s.wsize ≤ 65535 := Int.le_ediv_iff_mul_le hpos
    simp only [inRange]
    constructor
    · intro hh
      by_cases hr : 100 ≤ h ∧ h ≤ 65535 / (s.wsize : Int)
      · have h3 := key.mp hr.2
        have h4 : h ≤ h * s.wsize := by
          have : h * 1 ≤ h * s.wsize := Int.mul_le_mul_of_nonneg_left (by omega) (by omega)
          simpa using this
        exact ⟨by omega, by omega, fun _ => ⟨hr.1, h3⟩⟩
      · simp [hr] at hh
    · rintro ⟨h0, h1, h2⟩
      obtain ⟨h3, h4⟩ := h2 hm
      simp [h3, key.mpr h4]
  · have hb : mssBounds s = (0, 65535) := by simp [mssBounds, hm]
    rw [hb]
    simp only [inRange]
    constructor
    · intro hh
      by_cases hr : 0 ≤ h ∧ h ≤ 65535
      · exact ⟨hr.1, hr.2, fun h' => absurd h' hm⟩
      · simp [hr] at hh
    · rintro ⟨h0, h1, _⟩
      simp [h0, h1]

/-- using `h` as the window scale cannot prevent the match: it is a byte, and it exceeds 14 exactly when
    the signature asks for `exws` -/
def WsAdmissible (s : Sig) (h : Int) : Prop := 0 ≤ h ∧ h ≤ 255 ∧ (s.quirks .exws = true ↔ 14 < h)

theorem ws_inRange_iff (s : Sig) (h : Int) :
    (if s.quirks .exws then inRange 15 255 (some h) else inRange 0 14 (some h)) = some h.toNat ↔ WsAdmissible s h := by
  unfold inRange WsAdmissible
  by_cases he : s.quirks .exws = true
  · simp only [he, ↓reduceIte, true_iff]
    constructor
    · intro hh; split at hh
      · rename_i hr; omega
      · simp at hh
    · rintro ⟨h0, h1, h2⟩
      have : 15 ≤ h ∧ h ≤ 255 := by omega
      simp [this]
  · have he' : s.quirks .exws = false := by simpa using he
    simp only [he', Bool.false_eq_true, ↓reduceIte, false_iff, Int.not_lt]
    constructor
    · intro hh; split at hh
      · rename_i hr; omega
      · simp at hh
    · rintro ⟨h0, h1, h2⟩
      have : 0 ≤ h ∧ h ≤ 14 := by omega
      simp [this]

/-! ### one option of the layout -/

/-- **MSS**: a value the signature fixes always wins; otherwise an admissible hint is used as it is; otherwise a
    drawn value is used, and that value is itself admissible -/
theorem impOption_mss (s : Sig) (b : Base) (up : Option Int) (c : Nat × Nat)
    (hw : s.wtype = .mss → 0 < s.wsize) :
    (∀ m, s.mss = some m → impOption s b up 2 c = ([.mss m], false)) ∧
    (∀ h, s.mss = none → b.mssHint = some h → MssAdmissible s h → impOption s b up 2 c = ([.mss h.toNat], false)) ∧
    (s.mss = none → (∀ h, b.mssHint = some h → ¬ MssAdmissible s h) →
        impOption s b up 2 c = ([.mss c.1], false) ∧ (optChoiceOk s b up 2 c = true → MssAdmissible s c.1)) := by
  refine ⟨?_, ?_, ?_⟩
  · intro m hm
    simp [impOption, hm]
  · intro h hm hh hadm
    have := (mss_inRange_iff s h hw).mpr hadm
    simp only [impOption, beq_self_eq_true, ↓reduceIte, hm, hh]
    rw [show mssBounds s = ((mssBounds s).1, (mssBounds s).2) from rfl]
    simp only [this]
  · intro hm hbad
    have hnone : inRange (mssBounds s).1 (mssBounds s).2 b.mssHint = none := by
      cases hh : b.mssHint with
      | none => rfl
      | some h =>
        have hb := hbad h hh
        exact inRange_none_of_ne _ _ _ (fun hc => hb ((mss_inRange_iff s h hw).mp hc))
    refine ⟨?_, ?_⟩
    · simp only [impOption, beq_self_eq_true, ↓reduceIte, hm]
      rw [show mssBounds s = ((mssBounds s).1, (mssBounds s).2) from rfl]
      simp only [hnone]
    · intro hok
      simp only [optChoiceOk, beq_self_eq_true, ↓reduceIte, hm] at hok
      rw [show mssBounds s = ((mssBounds s).1, (mssBounds s).2) from rfl] at hok
      simp only [hnone, decide_eq_true_eq] at hok
      have hiff := mss_inRange_iff s (c.1 : Int) hw
      apply hiff.mp
      unfold inRange
      simp [hok.1, hok.2]

/-- **window scale**: fixed value wins; admissible hint kept; otherwise a drawn, admissible value -/
theorem impOption_ws (s : Sig) (b : Base) (up : Option Int) (c : Nat × Nat) :
    (∀ w, s.scale = some w → impOption s b up 3 c = ([.ws w], false)) ∧
    (∀ h, s.scale = none → b.wsHint = some h → WsAdmissible s h → impOption s b up 3 c = ([.ws h.toNat], false)) ∧
    (s.scale = none → (∀ h, b.wsHint = some h → ¬ WsAdmissible s h) →
        impOption s b up 3 c = ([.ws c.1], false) ∧ (optChoiceOk s b up 3 c = true → WsAdmissible s c.1)) := by
  refine ⟨?_, ?_, ?_⟩
  · intro w hw
    simp [impOption, hw]
  · intro h hs hh hadm
    have := (ws_inRange_iff s h).mpr hadm
    simp only [impOption, hs, hh]
    by_cases he : s.quirks .exws = true
    · simp only [he, ↓reduceIte] at this ⊢
      simp [this]
    · have he' : s.quirks .exws = false := by simpa using he
      simp only [he', Bool.false_eq_true, ↓reduceIte] at this ⊢
      simp [this]
  · intro hs hbad
    have hnone : (if s.quirks .exws then inRange 15 255 b.wsHint else inRange 0 14 b.wsHint) = none := by
      cases hh : b.wsHint with
      | none => simp [inRange]
      | some h =>
        have hb := hbad h hh
        have hiff := ws_inRange_iff s h
        by_cases he : s.quirks .exws = true
        · simp only [he, ↓reduceIte] at hiff ⊢
          exact inRange_none_of_ne _ _ _ (fun hc => hb (hiff.mp hc))
        · have he' : s.quirks .exws = false := by simpa using he
          simp only [he', Bool.false_eq_true, ↓reduceIte] at hiff ⊢
          exact inRange_none_of_ne _ _ _ (fun hc => hb (hiff.mp hc))
    refine ⟨?_, ?_⟩
    · simp only [impOption, hs]
      by_cases he : s.quirks .exws = true
      · simp only [he, ↓reduceIte] at hnone ⊢
        simp [hnone]
      · have he' : s.quirks .exws = false := by simpa using he
        simp only [he', Bool.false_eq_true, ↓reduceIte] at hnone ⊢
        simp [hnone]
    · intro hok
      unfold WsAdmissible
      by_cases he : s.quirks .exws = true
      · simp only [he, ↓reduceIte] at hnone
        have hr : 15 ≤ c.1 ∧ c.1 ≤ 255 := by
          simpa [optChoiceOk, hs, he, hnone] using hok
        simp only [he, true_iff]
        omega
      · have he' : s.quirks .exws = false := by simpa using he
        simp only [he', Bool.false_eq_true, ↓reduceIte] at hnone
        have hr : c.1 ≤ 14 := by
          simpa [optChoiceOk, hs, he', hnone] using hok
        simp only [he', Bool.false_eq_true, false_iff, Int.not_lt]
        omega

/-- **own timestamp**: zero exactly when `ts1-` is asked for; otherwise the `uptime` argument if usable, else a
    non-zero 32-bit hint as it is, else a drawn non-zero value -/
theorem impOption_ts1 (s : Sig) (b : Base) (up : Option Int) (c : Nat × Nat) :
    ∃ t1 t2, impOption s b up 8 c = ([.ts t1 t2], false) ∧
      (s.quirks .zeroTs1 = true → t1 = 0) ∧
      (s.quirks .zeroTs1 = false → inRange 1 4294967295 up = none →
        (∀ h, b.ts1Hint = some h → 1 ≤ h → h ≤ 4294967295 → t1 = h.toNat) ∧
        (optChoiceOk s b up 8 c = true → t1 ≠ 0)) := by
  refine ⟨_, _, by simp only [impOption]; rfl, ?_, ?_⟩
  · intro hz; simp [hz]
  · intro hz hup
    simp only [hz, Bool.false_eq_true, ↓reduceIte, hup]
    refine ⟨?_, ?_⟩
    · intro h hh h1 h2
      simp [hh, inRange, h1, h2]
    · intro hok
      cases hh : inRange 1 4294967295 b.ts1Hint with
      | some v =>
        simp only
        cases hb : b.ts1Hint with
        | none => simp [hb, inRange] at hh
        | some h =>
          rw [hb, inRange_some] at hh
          split at hh
          · simp only [Option.some.injEq] at hh; subst hh; omega
          · simp at hh
      | none =>
        simp only
        have hr : 1 ≤ c.1 ∧ c.1 ≤ 4294967295 := by
          have := hok
          simp [optChoiceOk, hz, hup, hh] at this
          exact this.1
        omega

/-- **peer timestamp**: on a (final) SYN it is non-zero exactly when `ts2+` is asked for (a non-zero hint is kept);
    on a SYN+ACK any 32-bit hint is kept -/
theorem impOption_ts2 (s : Sig) (b : Base) (up : Option Int) (c : Nat × Nat) :
    ∃ t1 t2, impOption s b up 8 c = ([.ts t1 t2], false) ∧
      (impTcpType s b = F_SYN → s.quirks .nzTs2 = false → t2 = 0) ∧
      (impTcpType s b = F_SYN → s.quirks .nzTs2 = true →
        (∀ h, b.ts2Hint = some h → 1 ≤ h → h ≤ 4294967295 → t2 = h.toNat) ∧
        (optChoiceOk s b up 8 c = true → t2 ≠ 0)) ∧
      (impTcpType s b ≠ F_SYN → ∀ h, b.ts2Hint = some h → 0 ≤ h → h ≤ 4294967295 → t2 = h.toNat) := by
  refine ⟨_, _, by simp only [impOption]; rfl, ?_, ?_, ?_⟩
  · intro hs hq; simp [hs, hq]
  · intro hs hq
    simp only [hs, beq_self_eq_true, ↓reduceIte, hq, Bool.not_true, Bool.false_eq_true]
    refine ⟨?_, ?_⟩
    · intro h hh h1 h2; simp [hh, inRange, h1, h2]
    · intro hok
      cases hh : inRange 1 4294967295 b.ts2Hint with
      | some v =>
        simp only
        cases hb : b.ts2Hint with
        | none => simp [hb, inRange] at hh
        | some h =>
          rw [hb, inRange_some] at hh
          split at hh
          · simp only [Option.some.injEq] at hh; subst hh; omega
          · simp at hh
      | none =>
        simp only
        have hr : 1 ≤ c.2 ∧ c.2 ≤ 4294967295 := by
          have := hok
          simp [optChoiceOk, hs, hq, hh] at this
          exact this.2
        omega
  · intro hs h hh h0 h1
    have : (impTcpType s b == F_SYN) = false := by simpa using hs
    simp [this, hh, inRange, h0, h1]

/-! ### from one option to the whole option list of the output -/

theorem mem_impOptionsGo (s : Sig) (b : Base) (up : Option Int) (ks : List Nat) (cs : List (Nat × Nat)) (o : SOpt)
    (h : o ∈ impOptionsGo s b up ks cs) : ∃ k ∈ ks, ∃ c, o ∈ (impOption s b up k c).1 := by
  induction ks generalizing cs with
  | nil => simp [impOptionsGo] at h
  | cons k ks ih =>
    simp only [impOptionsGo] at h
    split at h
    · exact ⟨k, by simp, _, h⟩
    · rw [List.mem_append] at h
      rcases h with h | h
      · exact ⟨k, by simp, _, h⟩
      · obtain ⟨k', hk', c', hc'⟩ := ih _ h
        exact ⟨k', by simp [hk'], c', hc'⟩

theorem mem_stretchFirst (m : Nat) (l : List SOpt) (o : SOpt) (h : o ∈ stretchFirst m l) :
    o ∈ l ∨ (∃ n, o = .sack n) ∨ (∃ k n, o = .raw k n) := by
  induction l with
  | nil => simp [stretchFirst] at h
  | cons x t ih =>
    cases x with
    | sack n =>
      simp only [stretchFirst, List.mem_cons] at h
      rcases h with rfl | h
      · exact Or.inr (Or.inl ⟨_, rfl⟩)
      · exact Or.inl (by simp [h])
    | raw k n =>
      simp only [stretchFirst, List.mem_cons] at h
      rcases h with rfl | h
      · exact Or.inr (Or.inr ⟨_, _, rfl⟩)
      · exact Or.inl (by simp [h])
    | _ =>
      simp only [stretchFirst, List.mem_cons] at h
      rcases h with rfl | h
      · exact Or.inl (by simp)
      · rcases ih h with h' | h'
        · exact Or.inl (by simp [h'])
        · exact Or.inr h'

theorem mem_alignOptions (l : List SOpt) (o : SOpt) (h : o ∈ alignOptions l) :
    o ∈ l ∨ (∃ n, o = .sack n) ∨ (∃ k n, o = .raw k n) := by
  unfold alignOptions at h
  simp only at h
  split at h
  · exact Or.inl h
  · exact mem_stretchFirst _ _ _ h

/-- only layout entries of kind 2 / 3 / 8 produce MSS / window-scale / timestamp options -/
theorem impOption_kinds (s : Sig) (b : Base) (up : Option Int) (k : Nat) (c : Nat × Nat) :
    (∀ v, SOpt.mss v ∈ (impOption s b up k c).1 → k = 2) ∧
    (∀ v, SOpt.ws v ∈ (impOption s b up k c).1 → k = 3) ∧
    (∀ x y, SOpt.ts x y ∈ (impOption s b up k c).1 → k = 8) := by
  by_cases h2 : k = 2
  · subst h2
    refine ⟨fun _ _ => rfl, ?_, ?_⟩
    · intro v hv
      simp only [impOption, beq_self_eq_true, ↓reduceIte] at hv
      repeat' split at hv
      all_goals simp at hv
    · intro x y hv
      simp only [impOption, beq_self_eq_true, ↓reduceIte] at hv
      repeat' split at hv
      all_goals simp at hv
  · by_cases h3 : k = 3
    · subst h3
      refine ⟨?_, fun _ _ => rfl, ?_⟩
      · intro v hv
        simp only [impOption, Nat.reduceBEq, Bool.false_eq_true, ↓reduceIte, beq_self_eq_true] at hv
        repeat' split at hv
        all_goals simp at hv
      · intro x y hv
        simp only [impOption, Nat.reduceBEq, Bool.false_eq_true, ↓reduceIte, beq_self_eq_true] at hv
        repeat' split at hv
        all_goals simp at hv
    · by_cases h8 : k = 8
      · subst h8
        refine ⟨?_, ?_, fun _ _ _ => rfl⟩
        · intro v hv
          simp [impOption] at hv
        · intro v hv
          simp [impOption] at hv
      · have e2 : (k == 2) = false := by simpa using h2
        have e3 : (k == 3) = false := by simpa using h3
        have e8 : (k == 8) = false := by simpa using h8
        refine ⟨?_, ?_, ?_⟩
        · intro v hv
          simp only [impOption, e2, e3, e8, Bool.false_eq_true, ↓reduceIte] at hv
          repeat' split at hv
          all_goals simp [List.mem_replicate] at hv
          all_goals (try (split at hv <;> simp at hv))
        · intro v hv
          simp only [impOption, e2, e3, e8, Bool.false_eq_true, ↓reduceIte] at hv
          repeat' split at hv
          all_goals simp [List.mem_replicate] at hv
          all_goals (try (split at hv <;> simp at hv))
        · intro x y hv
          simp only [impOption, e2, e3, e8, Bool.false_eq_true, ↓reduceIte] at hv
          repeat' split at hv
          all_goals simp [List.mem_replicate] at hv
          all_goals (try (split at hv <;> simp at hv))

/-- **C14, a fixed value always overrides the hint**: with a fixed MSS / scale in the signature every MSS / window
    scale option of the output carries exactly that value, whatever the base packet offered -/
theorem out_fixed_overrides (s : Sig) (b : Base) (up : Option Int) (c : Choices) :
    (∀ m v, s.mss = some m → SOpt.mss v ∈ impOptions s b up c → v = m) ∧
    (∀ w v, s.scale = some w → SOpt.ws v ∈ impOptions s b up c → v = w) := by
  refine ⟨?_, ?_⟩
  · intro m v hm hv
    rcases mem_alignOptions _ _ hv with hv | ⟨n, hn⟩ | ⟨k, n, hn⟩
    · obtain ⟨k, _, c', hc'⟩ := mem_impOptionsGo _ _ _ _ _ _ hv
      have hk := (impOption_kinds s b up k c').1 v hc'
      subst hk
      simp only [impOption, beq_self_eq_true, ↓reduceIte, hm, List.mem_singleton, SOpt.mss.injEq] at hc'
      exact hc'
    · cases hn
    · cases hn
  · intro w v hw hv
    rcases mem_alignOptions _ _ hv with hv | ⟨n, hn⟩ | ⟨k, n, hn⟩
    · obtain ⟨k, _, c', hc'⟩ := mem_impOptionsGo _ _ _ _ _ _ hv
      have hk := (impOption_kinds s b up k c').2.1 v hc'
      subst hk
      rw [(impOption_ws s b up c').1 w hw] at hc'
      simpa using hc'
    · cases hn
    · cases hn

/-- **C14, an admissible hint is kept**: with a wildcard MSS / scale and an admissible hint in the base packet, every
    MSS / window scale option of the output carries the hint -/
theorem out_hint_kept (s : Sig) (b : Base) (up : Option Int) (c : Choices) (hwz : s.wtype = .mss → 0 < s.wsize) :
    (∀ h v, s.mss = none → b.mssHint = some h → MssAdmissible s h → SOpt.mss v ∈ impOptions s b up c → v = h.toNat) ∧
    (∀ h v, s.scale = none → b.wsHint = some h → WsAdmissible s h → SOpt.ws v ∈ impOptions s b up c → v = h.toNat) := by
  refine ⟨?_, ?_⟩
  · intro h v hm hh hadm hv
    rcases mem_alignOptions _ _ hv with hv | ⟨n, hn⟩ | ⟨k, n, hn⟩
    · obtain ⟨k, _, c', hc'⟩ := mem_impOptionsGo _ _ _ _ _ _ hv
      have hk := (impOption_kinds s b up k c').1 v hc'
      subst hk
      rw [(impOption_mss s b up c' hwz).2.1 h hm hh hadm] at hc'
      simpa using hc'
    · cases hn
    · cases hn
  · intro h v hs hh hadm hv
    rcases mem_alignOptions _ _ hv with hv | ⟨n, hn⟩ | ⟨k, n, hn⟩
    · obtain ⟨k, _, c', hc'⟩ := mem_impOptionsGo _ _ _ _ _ _ hv
      have hk := (impOption_kinds s b up k c').2.1 v hc'
      subst hk
      rw [(impOption_ws s b up c').2.1 h hs hh hadm] at hc'
      simpa using hc'
    · cases hn
    · cases hn

/-! ### fields outside the options -/

/-- **window**: with a `*` window the base's own window is kept -/
theorem imp_window_any (s : Sig) (b : Base) (hops : Int) (mtu : Nat) (up : Option Int) (c : Choices) (o : OutPkt)
    (h : impTcp s b hops mtu up c = .ok o) (hw : s.wtype = .any) : o.window = b.window := by
  obtain ⟨win, hwin, rfl⟩ := impTcp_ok s b hops mtu up c o h
  simp only [impWindow, hw, Except.ok.injEq] at hwin
  exact hwin.symm

/-- **IPv4 id**: whenever the signature leaves the id free (`df,id+`, or neither `df` nor `id-`) a non-zero base
    id is kept; `id-` / `df` without `id+` force it to zero -/
theorem imp_ip_id (s : Sig) (b : Base) (hops : Int) (mtu : Nat) (up : Option Int) (c : Choices) (o : OutPkt)
    (h : impTcp s b hops mtu up c = .ok o) (h4 : b.ipVer ≠ 6) :
    ((s.quirks .df = true ∧ s.quirks .nzId = true) ∨ (s.quirks .df = false ∧ s.quirks .zeroId = false) →
        b.ipId ≠ 0 → o.ipId = b.ipId) ∧
    ((s.quirks .df = true ∧ s.quirks .nzId = false) ∨ (s.quirks .df = false ∧ s.quirks .zeroId = true) → o.ipId = 0) := by
  obtain ⟨win, _, rfl⟩ := impTcp_ok s b hops mtu up c o h
  have hv : (b.ipVer == 6) = false := by simpa using h4
  simp only [hv, Bool.false_eq_true, ↓reduceIte, impIpId]
  refine ⟨?_, ?_⟩
  · rintro (⟨h1, h2⟩ | ⟨h1, h2⟩) hid
    · have : (b.ipId == 0) = false := by simpa using hid
      simp [h1, h2, this]
    · have : (b.ipId == 0) = false := by simpa using hid
      simp [h1, h2, this]
  · rintro (⟨h1, h2⟩ | ⟨h1, h2⟩)
    · simp [h1, h2]
    · simp [h1, h2]

/-- **payload**: kept for class `*`; kept for class `+` when there is one; removed for class `0` -/
theorem imp_payload (s : Sig) (b : Base) (hops : Int) (mtu : Nat) (up : Option Int) (c : Choices) (o : OutPkt)
    (h : impTcp s b hops mtu up c = .ok o) :
    (s.payClass = none → o.payload = b.payload) ∧
    (s.payClass = some true → b.payload ≠ [] → o.payload = b.payload) ∧
    (s.payClass = some false → o.payload = []) := by
  obtain ⟨win, _, rfl⟩ := impTcp_ok s b hops mtu up c o h
  simp only [impPayload]
  refine ⟨?_, ?_, ?_⟩
  · intro hp; simp [hp]
  · intro hp hne
    have : b.payload.isEmpty = false := by cases hb : b.payload <;> simp_all
    simp [hp, this]
  · intro hp; simp [hp]

/-! non-vacuity: the admissibility predicates are satisfiable and refutable -/
def exSigMss4 : Sig :=
  { ipVer := none, olen := 0, ttl := 64, badTtl := false, wtype := .mss, wsize := 4, scale := none,
    layout := [2], mss := none, eolPad := 0, payClass := none, quirks := QSet.empty }

example : MssAdmissible exSigMss4 1460 := by unfold MssAdmissible exSigMss4; simp
example : ¬ MssAdmissible exSigMss4 99 := by unfold MssAdmissible exSigMss4; simp
example : ¬ MssAdmissible exSigMss4 16384 := by unfold MssAdmissible exSigMss4; simp

end P0f
