import P0f.Model.Http
/-
  C04, HTTP part — `read_payload` on ANY byte string either returns a result or raises PacketError:
  the `line[0]` of `read_headers` (the only operation that is not wrapped in a `try`) can never
  fail, because no line extracted up to the first blank line is empty.
-/
namespace P0f
open P0f.Py

theorem dropCr_eq_nil (l : Bytes) : dropCr l = [] ↔ l = [] ∨ l = ['\r'] := by
  unfold dropCr
  constructor
  · intro h
    split at h
    · rename_i hl
      right
      cases l with
      | nil => simp at hl
      | cons a t =>
        have : (a :: t).dropLast = [] := h
        cases t with
        | nil => simp at hl; simp [hl]
        | cons b t' => simp [List.dropLast] at this
    · exact Or.inl h
  · rintro (rfl | rfl) <;> simp

def NoBlankStart (d : Bytes) : Prop := d.head? ≠ some '\n' ∧ ∀ t, d ≠ '\r' :: '\n' :: t

/-- every line produced by the scan is non-empty -/
theorem scanLines_nonempty (d cur : Bytes) (acc ls : List Bytes)
    (hJ1 : cur = [] → NoBlankStart d) (hJ2 : cur = ['\r'] → d.head? ≠ some '\n')
    (hacc : ∀ l ∈ acc, l ≠ []) (h : scanLines d cur acc = some ls) : ∀ l ∈ ls, l ≠ [] := by
  have hline : ∀ rest, d = '\n' :: rest → dropCr cur.reverse ≠ [] := by
    intro rest hd hc
    rw [dropCr_eq_nil] at hc
    rcases hc with hc | hc
    · have : cur = [] := by simpa using hc
      exact (hJ1 this).1 (by simp [hd])
    · have : cur = ['\r'] := by
        have := congrArg List.reverse hc
        simpa using this
      exact hJ2 this (by simp [hd])
  fun_induction scanLines d cur acc generalizing ls with
  | case1 => simp at h
  | case2 cur acc t =>
    simp only [Option.some.injEq] at h
    subst h
    intro l hl
    simp only [List.reverse_cons, List.mem_append, List.mem_reverse, List.mem_singleton] at hl
    rcases hl with hl | hl
    · exact hacc l hl
    · subst hl; exact hline _ rfl
  | case3 cur acc t =>
    simp only [Option.some.injEq] at h
    subst h
    intro l hl
    simp only [List.reverse_cons, List.mem_append, List.mem_reverse, List.mem_singleton] at hl
    rcases hl with hl | hl
    · exact hacc l hl
    · subst hl; exact hline _ rfl
  | case4 rest cur acc hn1 hn2 ih =>
    apply ih ls
    · intro _
      refine ⟨?_, ?_⟩
      · intro hh
        cases rest with
        | nil => simp at hh
        | cons a t => simp at hh; subst hh; exact hn1 t rfl
      · intro t ht; exact hn2 t ht
    · intro hc; simp at hc
    · intro l hl
      simp only [List.mem_cons] at hl
      rcases hl with hl | hl
      · subst hl; exact hline _ rfl
      · exact hacc l hl
    · exact h
    · intro rest' hd; exact (hn1 rest' hd).elim
  | case5 c rest cur acc hc ih =>
    apply ih ls
    · intro hcur; simp at hcur
    · intro hcur
      simp only [List.cons.injEq] at hcur
      obtain ⟨rfl, rfl⟩ := hcur
      have := (hJ1 rfl).2
      intro hh
      cases rest with
      | nil => simp at hh
      | cons a t => simp at hh; subst hh; exact this t rfl
    · exact hacc
    · exact h
    · intro rest' hd hcontra
      rw [dropCr_eq_nil] at hcontra
      rcases hcontra with hx | hx
      · simp at hx
      · have := congrArg List.reverse hx
        simp only [List.reverse_cons, List.reverse_nil, List.nil_append] at this
        -- c :: cur = ['\r'] and rest starts with '\n'
        cases cur with
        | nil =>
          simp at this; subst this
          exact (hJ1 rfl).2 rest' (by rw [hd])
        | cons a t => simp at this

theorem extractLines_nonempty (data : Bytes) (ls : List Bytes) (h : extractLines data = some ls) :
    ∀ l ∈ ls, l ≠ [] := by
  unfold extractLines at h
  split at h
  · simp at h; subst h; simp
  · split at h
    · simp at h; subst h; simp
    · rename_i h1 h2
      apply scanLines_nonempty data [] [] ls _ (by simp) (by simp) h
      intro _
      refine ⟨?_, ?_⟩
      · intro hh
        cases data with
        | nil => simp at hh
        | cons a t => simp at hh; subst hh; simp at h1
      · intro t ht; subst ht; simp at h2

theorem readHeadersGo_no_indexError (lines : List Bytes) (acc : List Hdr) (h : ∀ l ∈ lines, l ≠ []) :
    readHeadersGo lines acc ≠ .error .indexError := by
  induction lines generalizing acc with
  | nil => simp [readHeadersGo]
  | cons line rest ih =>
    have hne : line ≠ [] := h line (by simp)
    have hrest : ∀ l ∈ rest, l ≠ [] := fun l hl => h l (by simp [hl])
    cases line with
    | nil => exact absurd rfl hne
    | cons c t =>
      simp only [readHeadersGo]
      split
      · split
        · simp
        · exact ih _ hrest
      · split
        · simp
        · split
          · simp
          · exact ih _ hrest

/-- **C04, HTTP**: for EVERY byte string, `read_payload` returns a result or raises PacketError -/
theorem readPayload_errors_closed (data : Bytes) :
    (∃ r m hs, readPayload data = .ok r m hs) ∨ readPayload data = .packetError := by
  unfold readPayload
  cases he : extractLines data with
  | none => right; rfl
  | some ls =>
    cases ls with
    | nil => right; rfl
    | cons first rest =>
      have hne := extractLines_nonempty data _ he
      simp only
      cases readFirstLine first with
      | none => right; rfl
      | some p =>
        obtain ⟨isReq, minor⟩ := p
        simp only
        have hno := readHeadersGo_no_indexError rest [] (fun l hl => hne l (by simp [hl]))
        cases hr : readHeadersGo rest [] with
        | ok hs => left; exact ⟨isReq, minor, hs, rfl⟩
        | error e =>
          cases e with
          | packetError => right; rfl
          | indexError => exact absurd hr hno

/-- payloads that used to raise IndexError -/
example : readPayload "\n\n".toList = .packetError := by decide
example : readPayload "\r\nGET / HTTP/1.1\r\n\r\n".toList = .packetError := by decide
example : readPayload "GET / HTTP/1.1\nHost: a\n  b\r\n\r\nbody".toList =
    .ok true 1 [{ name := "Host".toList, value := "a\r\n b".toList }] := by decide

end P0f
