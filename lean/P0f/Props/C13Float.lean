import P0f.Model.Q
import Mathlib.Data.Rat.Floor
import Mathlib.Algebra.Order.Field.Basic
import Mathlib.Algebra.Order.Floor.Ring
import Mathlib.Tactic.Linarith
import Mathlib.Tactic.Positivity
import Mathlib.Tactic.FieldSimp
import Mathlib.Tactic.Ring
/-
  C13, the float step.  `fingerprint_uptime` evaluates `raw = ticks * 1000.0 / ms` in binary64 and then only
  (i) compares `raw` with the two thresholds, (ii) truncates it with `int()`, (iii) compares an integer with
  `max_timestamp_scale / timestamp_grace`.  The model carries all of these as exact rationals.  This file proves that
  the exact reading gives the same Booleans and the same integer as ANY rounding function with the three standard
  properties of IEEE-754 round-to-nearest (stated as hypotheses of a structure, not as axioms), on the documented
  domain.  That CPython's `float` is such a rounding function is the assumption that remains in the trusted base.
-/
namespace P0f

/-- round-to-nearest into a set of representable numbers that contains the integers up to 2^53:
    monotone, exact on representable numbers, relative error at most 2^-53 -/
structure Rounding (rn : ℚ → ℚ) : Prop where
  mono : ∀ x y, x ≤ y → rn x ≤ rn y
  exactInt : ∀ n : ℤ, |n| ≤ 2 ^ 53 → rn n = n
  relErr : ∀ x, |rn x - x| ≤ |x| / 2 ^ 53

variable {rn : ℚ → ℚ}

theorem Rounding.le_of_nonneg (h : Rounding rn) (x : ℚ) (hx : 0 ≤ x) : rn x ≤ x * (1 + 1 / 2 ^ 53) := by
  have := h.relErr x
  rw [abs_of_nonneg hx] at this
  have h2 := (abs_le.mp this).2
  linarith

theorem Rounding.ge_of_nonneg (h : Rounding rn) (x : ℚ) (hx : 0 ≤ x) : x * (1 - 1 / 2 ^ 53) ≤ rn x := by
  have := h.relErr x
  rw [abs_of_nonneg hx] at this
  have h2 := (abs_le.mp this).1
  linarith


/-- **`int(raw_frequency)`**: truncating the rounded quotient gives the floor of the exact quotient, as long as
    `(⌊N/ms⌋ + 1) · ms < 2^53` (e.g. readings up to 2^21 Hz with elapsed times up to 2^32 ms; the code only truncates
    readings within `[min scale, max scale]`, at most 1500 by default, with `ms ≤ 600000`). -/
theorem floor_rn (h : Rounding rn) (N ms : ℕ) (hms : 0 < ms)
    (hb : (⌊(N : ℚ) / ms⌋ + 1) * (ms : ℤ) < 2 ^ 53) :
    ⌊rn ((N : ℚ) / ms)⌋ = ⌊(N : ℚ) / ms⌋ := by
  set x : ℚ := (N : ℚ) / ms with hx
  set k : ℤ := ⌊x⌋ with hk
  have hmsQ : (0 : ℚ) < ms := by exact_mod_cast hms
  have hx0 : 0 ≤ x := by positivity
  have hk0 : 0 ≤ k := Int.floor_nonneg.mpr hx0
  have hms1 : (1 : ℤ) ≤ ms := by exact_mod_cast hms
  have hk53 : |k| ≤ 2 ^ 53 := by
    rw [abs_of_nonneg hk0]
    nlinarith
  apply le_antisymm
  · -- upper bound
    have hlt : x < (k : ℚ) + 1 := Int.lt_floor_add_one x
    -- N + 1 ≤ (k+1) ms as integers
    have hN : (N : ℤ) + 1 ≤ (k + 1) * ms := by
      have : (N : ℚ) < ((k : ℚ) + 1) * ms := by
        rw [hx] at hlt
        rwa [div_lt_iff₀ hmsQ] at hlt
      have : ((N : ℤ) : ℚ) < (((k + 1) * ms : ℤ) : ℚ) := by push_cast; exact_mod_cast this
      have := Int.cast_lt.mp this
      omega
    have hxle : x ≤ (k : ℚ) + 1 - 1 / ms := by
      rw [hx, div_le_iff₀ hmsQ]
      have : ((N : ℤ) : ℚ) + 1 ≤ (((k + 1) * ms : ℤ) : ℚ) := by exact_mod_cast hN
      push_cast at this
      field_simp
      linarith
    have hrn := h.le_of_nonneg x hx0
    have hbQ : ((k : ℚ) + 1) * ms < 2 ^ 53 := by exact_mod_cast hb
    have key : x * (1 + 1 / 2 ^ 53) < (k : ℚ) + 1 := by
      have e : (0 : ℚ) < 1 + 1 / 2 ^ 53 := by positivity
      calc x * (1 + 1 / 2 ^ 53) ≤ ((k : ℚ) + 1 - 1 / ms) * (1 + 1 / 2 ^ 53) := by
            exact mul_le_mul_of_nonneg_right hxle e.le
        _ < (k : ℚ) + 1 := by
            have h1 : ((k : ℚ) + 1) / 2 ^ 53 < 1 / ms := by
              rw [div_lt_div_iff₀ (by positivity) hmsQ]
              linarith
            have h2 : (0 : ℚ) < 1 / ms / 2 ^ 53 := by positivity
            have : ((k : ℚ) + 1 - 1 / ms) * (1 + 1 / 2 ^ 53)
                = (k : ℚ) + 1 + (((k : ℚ) + 1) / 2 ^ 53 - 1 / ms) - 1 / ms / 2 ^ 53 := by ring
            rw [this]; linarith
    have : rn x < (k : ℚ) + 1 := lt_of_le_of_lt hrn key
    have : ⌊rn x⌋ < k + 1 := by
      rw [Int.floor_lt]; push_cast; exact this
    omega
  · -- lower bound
    have hkx : (k : ℚ) ≤ x := Int.floor_le x
    have := h.mono _ _ hkx
    rw [h.exactInt k hk53] at this
    exact Int.le_floor.mpr this


/-- two non-negative rationals further apart than the rounding error of both stay strictly ordered after rounding -/
theorem rn_lt_of_gap (h : Rounding rn) (x y : ℚ) (hx : 0 ≤ x) (hxy : x < y) (hgap : (x + y) / 2 ^ 53 < y - x) :
    rn x < rn y := by
  have hy : 0 ≤ y := le_trans hx hxy.le
  have h1 := h.le_of_nonneg x hx
  have h2 := h.ge_of_nonneg y hy
  have : x * (1 + 1 / 2 ^ 53) < y * (1 - 1 / 2 ^ 53) := by
    have e : (x + y) / 2 ^ 53 = x * (1 / 2 ^ 53) + y * (1 / 2 ^ 53) := by ring
    rw [e] at hgap
    linarith
  linarith

/-- cross-multiplied strict inequality of two fractions of naturals leaves a gap of at least `1 / (b·d)` -/
theorem frac_gap (a b c d : ℕ) (hb : 0 < b) (hd : 0 < d) (hlt : (a : ℚ) / b < (c : ℚ) / d) :
    (1 : ℚ) / ((b : ℚ) * d) ≤ (c : ℚ) / d - (a : ℚ) / b := by
  have hbQ : (0 : ℚ) < b := by exact_mod_cast hb
  have hdQ : (0 : ℚ) < d := by exact_mod_cast hd
  have hcross : (a : ℚ) * d < (c : ℚ) * b := by
    rwa [div_lt_div_iff₀ hbQ hdQ] at hlt
  have hN : a * d + 1 ≤ c * b := by
    have : ((a * d : ℕ) : ℚ) < ((c * b : ℕ) : ℚ) := by push_cast; exact hcross
    have := Nat.cast_lt.mp this
    omega
  have hNQ : (a : ℚ) * d + 1 ≤ (c : ℚ) * b := by exact_mod_cast hN
  have e : (c : ℚ) / d - (a : ℚ) / b = ((c : ℚ) * b - (a : ℚ) * d) / ((b : ℚ) * d) := by
    field_simp
  rw [e]
  apply div_le_div_of_nonneg_right _ (by positivity)
  linarith

/-- **`min_timestamp_scale <= raw_frequency`**: the float comparison of the (rounded) threshold `p/q` with the rounded
    quotient agrees with the exact one when `2·p·ms < 2^53` (default: p/q = 7/10, ms ≤ 600000) -/
theorem threshold_le_iff (h : Rounding rn) (p q N ms : ℕ) (hq : 0 < q) (hms : 0 < ms)
    (hb : 2 * p * ms < 2 ^ 53) :
    rn ((p : ℚ) / q) ≤ rn ((N : ℚ) / ms) ↔ (p : ℚ) / q ≤ (N : ℚ) / ms := by
  constructor
  · intro hle
    by_contra hcon
    have hlt : (N : ℚ) / ms < (p : ℚ) / q := not_le.mp hcon
    have hgap := frac_gap N ms p q hms hq hlt
    have hqQ : (0 : ℚ) < q := by exact_mod_cast hq
    have hmsQ : (0 : ℚ) < ms := by exact_mod_cast hms
    have hbQ : (2 : ℚ) * p * ms < 2 ^ 53 := by exact_mod_cast hb
    have : rn ((N : ℚ) / ms) < rn ((p : ℚ) / q) := by
      apply rn_lt_of_gap h _ _ (by positivity) hlt
      have h1 : ((N : ℚ) / ms + (p : ℚ) / q) / 2 ^ 53 < 2 * ((p : ℚ) / q) / 2 ^ 53 := by
        apply div_lt_div_of_pos_right _ (by positivity); linarith
      have h2 : 2 * ((p : ℚ) / q) / 2 ^ 53 < 1 / ((ms : ℚ) * q) := by
        rw [div_lt_div_iff₀ (by positivity) (by positivity)]
        have : 2 * ((p : ℚ) / q) * ((ms : ℚ) * q) = 2 * p * ms := by field_simp
        rw [this]; linarith
      linarith
    exact absurd hle (not_le.mpr this)
  · exact h.mono _ _

/-- **`raw_frequency <= max_timestamp_scale`**: same for the upper threshold `p/q`, when `2·p·ms + 1 < 2^53`
    (default: 1500/1) -/
theorem le_threshold_iff (h : Rounding rn) (p q N ms : ℕ) (hq : 0 < q) (hms : 0 < ms)
    (hb : 2 * p * ms + 1 < 2 ^ 53) :
    rn ((N : ℚ) / ms) ≤ rn ((p : ℚ) / q) ↔ (N : ℚ) / ms ≤ (p : ℚ) / q := by
  constructor
  · intro hle
    by_contra hcon
    have hlt : (p : ℚ) / q < (N : ℚ) / ms := not_le.mp hcon
    have hgap := frac_gap p q N ms hq hms hlt
    have hqQ : (0 : ℚ) < q := by exact_mod_cast hq
    have hmsQ : (0 : ℚ) < ms := by exact_mod_cast hms
    have hbQ : (2 : ℚ) * p * ms + 1 < 2 ^ 53 := by exact_mod_cast hb
    have : rn ((p : ℚ) / q) < rn ((N : ℚ) / ms) := by
      apply rn_lt_of_gap h _ _ (by positivity) hlt
      -- with g = N/ms - p/q ≥ 1/(q·ms):  (p/q + N/ms) ε = (2 p/q + g) ε < g  as  2 (p/q) ε < g (1 - ε)
      set g : ℚ := (N : ℚ) / ms - (p : ℚ) / q with hg
      have hg1 : 1 / ((q : ℚ) * ms) ≤ g := hgap
      have e : ((p : ℚ) / q + (N : ℚ) / ms) / 2 ^ 53 = (2 * ((p : ℚ) / q) + g) / 2 ^ 53 := by rw [hg]; ring
      rw [e]
      have h2 : 2 * ((p : ℚ) / q) + 1 / ((q : ℚ) * ms) < 2 ^ 53 * (1 / ((q : ℚ) * ms)) := by
        have e1 : 2 * ((p : ℚ) / q) + 1 / ((q : ℚ) * ms) = (2 * p * ms + 1) / ((q : ℚ) * ms) := by field_simp
        have e2 : (2 : ℚ) ^ 53 * (1 / ((q : ℚ) * ms)) = 2 ^ 53 / ((q : ℚ) * ms) := by ring
        rw [e1, e2]
        exact div_lt_div_of_pos_right hbQ (by positivity)
      rw [div_lt_iff₀ (by positivity)]
      nlinarith
    exact absurd hle (not_le.mpr this)
  · exact h.mono _ _

/-- **`ts_diff_inv // 1000 < max_timestamp_scale / timestamp_grace`**: an integer against the rounded quotient of a
    representable threshold `p/q` by the integer `g`, when `2·p < 2^53` -/
theorem int_lt_quot_iff (h : Rounding rn) (n p q g : ℕ) (hq : 0 < q) (hg : 0 < g) (hn : (n : ℤ) ≤ 2 ^ 53)
    (hb : 2 * p < 2 ^ 53) :
    rn (n : ℚ) < rn ((p : ℚ) / (q * g : ℕ)) ↔ (n : ℚ) < (p : ℚ) / (q * g : ℕ) := by
  have hexact : rn (n : ℚ) = n := by
    have := h.exactInt (n : ℤ) (by rw [abs_of_nonneg (by positivity)]; exact hn)
    simpa using this
  have hqg : 0 < q * g := Nat.mul_pos hq hg
  have hqgQ : (0 : ℚ) < ((q * g : ℕ) : ℚ) := by exact_mod_cast hqg
  constructor
  · intro hlt
    by_contra hcon
    have hle : (p : ℚ) / (q * g : ℕ) ≤ (n : ℚ) := not_lt.mp hcon
    exact absurd hlt (not_lt.mpr (h.mono _ _ hle))
  · intro hlt
    have hlt' : (n : ℚ) / (1 : ℕ) < (p : ℚ) / (q * g : ℕ) := by simpa using hlt
    have hgap := frac_gap n 1 p (q * g) Nat.one_pos hqg hlt'
    have hbQ : (2 : ℚ) * p < 2 ^ 53 := by exact_mod_cast hb
    apply rn_lt_of_gap h _ _ (by positivity) hlt
    have h1 : ((n : ℚ) + (p : ℚ) / (q * g : ℕ)) / 2 ^ 53 < 2 * ((p : ℚ) / (q * g : ℕ)) / 2 ^ 53 := by
      apply div_lt_div_of_pos_right _ (by positivity); linarith
    have h2 : 2 * ((p : ℚ) / (q * g : ℕ)) / 2 ^ 53 < 1 / (((1 : ℕ) : ℚ) * (q * g : ℕ)) := by
      rw [div_lt_div_iff₀ (by positivity) (by positivity)]
      have : 2 * ((p : ℚ) / (q * g : ℕ)) * ((((1 : ℕ) : ℚ)) * (q * g : ℕ)) = 2 * p := by
        field_simp
        simp
      rw [this]; linarith
    have h3 : (p : ℚ) / (q * g : ℕ) - (n : ℚ) = (p : ℚ) / (q * g : ℕ) - (n : ℚ) / (1 : ℕ) := by simp
    rw [h3]; linarith

/-- non-vacuity: the identity (exact arithmetic) is a rounding function in this sense -/
example : Rounding (fun x : ℚ => x) :=
  ⟨fun _ _ h => h, fun _ _ => rfl, fun x => by simp only [sub_self, abs_zero]; positivity⟩

/-- **the float step of `fingerprint_uptime`, against the exact rationals `Q` of the model**: for a forward step of
    `d` ticks in `ms` milliseconds and thresholds `minN/minD`, `maxN/maxD`, the range test evaluated on rounded values
    is the cross-multiplied test the model performs (`Q.le`), and `int()` of the rounded reading is the model's
    `Q.trunc` - for every rounding function, on the domain `2·minN·ms < 2^53`, `2·maxN·ms + 1 < 2^53`,
    `(⌊d·1000/ms⌋ + 1)·ms < 2^53`. -/
theorem float_reading_agrees (h : Rounding rn) (minN minD maxN maxD d ms : ℕ)
    (hminD : 0 < minD) (hmaxD : 0 < maxD) (hms : 0 < ms)
    (hb1 : 2 * minN * ms < 2 ^ 53) (hb2 : 2 * maxN * ms + 1 < 2 ^ 53)
    (hb3 : (⌊((d * 1000 : ℕ) : ℚ) / ms⌋ + 1) * (ms : ℤ) < 2 ^ 53) :
    ((rn ((minN : ℚ) / minD) ≤ rn (((d * 1000 : ℕ) : ℚ) / ms)) ↔
        Q.le ⟨(minN : ℤ), minD⟩ ⟨((d * 1000 : ℕ) : ℤ), ms⟩ = true) ∧
    ((rn (((d * 1000 : ℕ) : ℚ) / ms) ≤ rn ((maxN : ℚ) / maxD)) ↔
        Q.le ⟨((d * 1000 : ℕ) : ℤ), ms⟩ ⟨(maxN : ℤ), maxD⟩ = true) ∧
    ⌊rn (((d * 1000 : ℕ) : ℚ) / ms)⌋ = Q.trunc ⟨((d * 1000 : ℕ) : ℤ), ms⟩ := by
  have hminDQ : (0 : ℚ) < minD := by exact_mod_cast hminD
  have hmaxDQ : (0 : ℚ) < maxD := by exact_mod_cast hmaxD
  have hmsQ : (0 : ℚ) < ms := by exact_mod_cast hms
  refine ⟨?_, ?_, ?_⟩
  · rw [threshold_le_iff h minN minD (d * 1000) ms hminD hms hb1, div_le_div_iff₀ hminDQ hmsQ]
    simp only [Q.le, decide_eq_true_eq]
    constructor
    · intro hle; exact_mod_cast hle
    · intro hle; exact_mod_cast hle
  · rw [le_threshold_iff h maxN maxD (d * 1000) ms hmaxD hms hb2, div_le_div_iff₀ hmsQ hmaxDQ]
    simp only [Q.le, decide_eq_true_eq]
    constructor
    · intro hle; exact_mod_cast hle
    · intro hle; exact_mod_cast hle
  · rw [floor_rn h (d * 1000) ms hms hb3]
    simp only [Q.trunc]
    rw [Int.tdiv_eq_ediv_of_nonneg (by positivity)]
    exact Rat.floor_natCast_div_natCast (d * 1000) ms

end P0f
