import P0f.Lemmas.Db
/-
  C10 — malformed databases are rejected with a line-numbered DatabaseError, never anything else;
  out-of-range values are never accepted; blank and comment lines are not errors.
-/
namespace P0f
open P0f.Py

/-- under the parser's invariant an iteration can only fail with `ParsingError` carrying the number
    of the line being read (in particular `add` finds its list, and `line[0]` is never evaluated on
    an empty string) -/
theorem stepKind_error (st : PSt) (pre : List LineKind) (n : Nat) (k : LineKind) (e : LoadErr)
    (hinv : Inv st pre) (h : stepKind st n k = .error e) : e = .parsing n := by
  cases k with
  | skip => simp [stepKind] at h
  | other => simp only [stepKind, Except.error.injEq] at h; exact h.symm
  | header s =>
    cases s with
    | none => simp only [stepKind, Except.error.injEq] at h; exact h.symm
    | some s => simp [stepKind] at h
  | sig v =>
    simp only [stepKind] at h
    split at h
    · rename_i s hstate hsec
      cases hp : parseSigFor s.kind v with
      | none => simp only [hp, Except.error.injEq] at h; exact h.symm
      | some sg =>
        obtain ⟨l, hl⟩ := hinv.created s hsec
        simp [hp, Db.add, hl] at h
    · simp only [Except.error.injEq] at h; exact h.symm
  | label v =>
    simp only [stepKind] at h
    cases hsec : st.sec with
    | none => simp only [hsec, Except.error.injEq] at h; exact h.symm
    | some s =>
      simp only [hsec] at h
      split at h
      · cases hp : parseLabelFor s.kind v with
        | none => simp only [hp, Except.error.injEq] at h; exact h.symm
        | some lb => simp [hp] at h
      · simp only [Except.error.injEq] at h; exact h.symm
  | sys v =>
    simp only [stepKind] at h
    split at h
    · simp at h
    · simp only [Except.error.injEq] at h; exact h.symm

/-- **C10, error line**: if the loop fails, it fails with `ParsingError(line m)` where `m` is a line of
    the file, every line before `m` was consumed without error (reaching some state `st1`), and
    line `m` itself is the one the parser rejects in that state. -/
theorem parseGo_error (ls : List (List Char)) (st : PSt) (pre : List LineKind) (e : LoadErr)
    (hinv : Inv st pre) (h : parseGo ls (pre.length + 1) st = .error e) :
    ∃ i st1, i < ls.length ∧ e = .parsing (pre.length + 1 + i) ∧
      parseGo (ls.take i) (pre.length + 1) st = .ok st1 ∧
      stepLine st1 (pre.length + 1 + i) (ls[i]?.getD []) = .error (.parsing (pre.length + 1 + i)) := by
  induction ls generalizing st pre with
  | nil => simp [parseGo] at h
  | cons l ls ih =>
    simp only [parseGo] at h
    cases hs : stepLine st (pre.length + 1) l with
    | error e1 =>
      simp only [hs, Except.error.injEq] at h
      subst h
      have he : e1 = .parsing (pre.length + 1) := by
        rw [stepLine_eq] at hs
        exact stepKind_error st pre _ _ _ hinv hs
      subst he
      exact ⟨0, st, by simp, by simp, by simp [parseGo], by simpa using hs⟩
    | ok st1 =>
      simp only [hs] at h
      have hs' := hs
      rw [stepLine_eq] at hs'
      obtain ⟨hinv1, _⟩ := stepKind_ok st st1 pre (classify l) hinv hs'
      obtain ⟨i, st2, hi, he, hpre, hstep⟩ := ih st1 (classify l :: pre) hinv1 (by simpa using h)
      refine ⟨i + 1, st2, by simp; omega, ?_, ?_, ?_⟩
      · simp only [List.length_cons] at he; rw [he]; congr 1; omega
      · simp only [List.take_succ_cons, parseGo, hs]
        simpa using hpre
      · simp only [List.length_cons] at hstep
        have : pre.length + 1 + (i + 1) = pre.length + 1 + 1 + i := by omega
        rw [this]
        simpa using hstep

/-- **C10, closure**: for EVERY text, parsing either succeeds or raises `ParsingError` carrying a
    1-based line number within the file; no `IndexError`, no other exception, and no plain
    `DatabaseError` from inside the loop. -/
theorem parseLines_closed (ls : List (List Char)) :
    (∃ db, parseLines ls = .ok db) ∨
      (∃ n, parseLines ls = .error (.parsing n) ∧ 1 ≤ n ∧ n ≤ ls.length) := by
  unfold parseLines
  cases hg : parseGo ls 1 PSt.init with
  | ok st => exact Or.inl ⟨st.db, rfl⟩
  | error e =>
    obtain ⟨i, st1, hi, he, _, _⟩ := parseGo_error ls PSt.init [] e Inv.init (by simpa using hg)
    simp only [List.length_nil, Nat.zero_add] at he
    exact Or.inr ⟨1 + i, by simp [he], by omega, by omega⟩

/-- **C10, which line**: the reported line is the first one the parser cannot accept: all lines before
    it load without error and the reported line fails in the state they lead to. -/
theorem error_line_correct (ls : List (List Char)) (n : Nat) (h : parseLines ls = .error (.parsing n)) :
    1 ≤ n ∧ n ≤ ls.length ∧
      ∃ st1, parseGo (ls.take (n - 1)) 1 PSt.init = .ok st1 ∧
        stepLine st1 n (ls[n - 1]?.getD []) = .error (.parsing n) := by
  unfold parseLines at h
  cases hg : parseGo ls 1 PSt.init with
  | ok st => simp [hg] at h
  | error e =>
    simp only [hg, Except.error.injEq] at h
    subst h
    obtain ⟨i, st1, hi, he, hpre, hstep⟩ := parseGo_error ls PSt.init [] _ Inv.init (by simpa using hg)
    simp only [List.length_nil, Nat.zero_add] at he hpre hstep
    have hn : n = 1 + i := by injection he
    subst hn
    refine ⟨by omega, by omega, st1, ?_, ?_⟩
    · simpa using hpre
    · simpa using hstep

/-- **C10, whole load**: `Database.load` on any file argument returns, raises `ParsingError(line)` or -
    only for an unreadable file - a plain `DatabaseError`. -/
theorem load_closed (cur : Db) (f : FileArg) :
    (∃ db, (dbLoad cur f).1 = .ok db) ∨ (∃ n, (dbLoad cur f).1 = .error (.parsing n) ∧ 1 ≤ n) ∨
      ((dbLoad cur f).1 = .error .database ∧ f matches .unreadable) := by
  cases f with
  | unreadable => right; right; simp [dbLoad, parseFile]
  | text t =>
    rcases parseLines_closed (pyLines t) with ⟨db, h⟩ | ⟨n, h, h1, _⟩
    · left; exact ⟨db, by simp [dbLoad, parseFile, parseText, h]⟩
    · right; left; exact ⟨n, by simp [dbLoad, parseFile, parseText, h], h1⟩

/-- **C10, blank and comment lines are not errors** (whitespace-only, `;…`, also indented) -/
theorem blank_and_comment_ok (st : PSt) (n : Nat) (raw : List Char)
    (h : strip raw = [] ∨ (strip raw).head? = some ';') : stepLine st n raw = .ok st := by
  unfold stepLine
  rcases h with h | h
  · simp [h]
  · have : (strip raw).isEmpty = false := isEmpty_false_of_head? h
    simp [this, h]

/-! ### range soundness: what the signature parsers accept is inside the documented ranges -/

theorem parseNumberN_range (f : List Char) (lo hi : Int) (n : Nat) (hlo : 0 ≤ lo)
    (h : parseNumberN f lo hi = some n) : lo ≤ (n : Int) ∧ (n : Int) ≤ hi := by
  unfold parseNumberN parseNumber at h
  cases hp : pyInt? f with
  | none => simp [hp] at h
  | some v =>
    simp only [hp] at h
    split at h
    · rename_i hr
      simp only [Option.map_some, Option.some.injEq] at h
      subst h
      have : 0 ≤ v := by omega
      rw [Int.toNat_of_nonneg this]
      exact hr
    · simp at h

theorem parseNumberW_range (f : List Char) (lo hi : Int) (r : Option Nat) (hlo : 0 ≤ lo)
    (h : parseNumberW f lo hi = some r) : ∀ n, r = some n → lo ≤ (n : Int) ∧ (n : Int) ≤ hi := by
  unfold parseNumberW at h
  split at h
  · simp only [Option.some.injEq] at h; subst h; intro n hn; simp at hn
  · cases hp : parseNumber f lo hi with
    | none => simp [hp] at h
    | some v =>
      simp only [hp, Option.map_some, Option.some.injEq] at h
      subst h
      intro n hn
      simp only [Option.some.injEq] at hn
      subst hn
      have := parseNumberN_range f lo hi v.toNat hlo (by simp [parseNumberN, hp])
      exact this

/-- `MTUSignature.parse` accepts only 1..65535 -/
theorem parseMtuSig_range (t : List Char) (m : Nat) (h : parseMtuSig t = some m) : 1 ≤ m ∧ m ≤ 65535 := by
  have := parseNumberN_range t 1 65535 m (by decide) h
  omega

/-- `_parse_ttl` accepts only final TTLs 1..255 (also for `ttl+dist`) -/
theorem parseTtl_range (f : List Char) (t : Nat) (b : Bool) (h : parseTtl f = some (t, b)) :
    1 ≤ t ∧ t ≤ 255 := by
  unfold parseTtl at h
  split at h
  · cases hp : parseNumberN f.dropLast 1 255 with
    | none => simp [hp] at h
    | some v =>
      simp only [hp, Option.map_some, Option.some.injEq, Prod.mk.injEq] at h
      have := parseNumberN_range _ 1 255 v (by decide) hp
      omega
  · split at h
    · simp only at h
      split at h
      · rename_i d t' hd ht
        have h1 := parseNumberN_range _ 1 255 t' (by decide) ht
        split at h
        · simp at h
        · simp only [Option.some.injEq, Prod.mk.injEq] at h; omega
      · simp at h
    · cases hp : parseNumberN f 1 255 with
      | none => simp [hp] at h
      | some v =>
        simp only [hp, Option.map_some, Option.some.injEq, Prod.mk.injEq] at h
        have := parseNumberN_range _ 1 255 v (by decide) hp
        omega

/-- `_parse_window` accepts only the documented forms and ranges -/
theorem parseWindow_range (f : List Char) (wt : WinType) (n : Nat) (sc : Option Nat)
    (h : parseWindow f = some (wt, n, sc)) :
    (wt = .normal → n ≤ 65535) ∧ (wt = .mod → 2 ≤ n ∧ n ≤ 65535) ∧
      ((wt = .mss ∨ wt = .mtu) → 1 ≤ n ∧ n ≤ 1000) ∧ (∀ s, sc = some s → s ≤ 255) := by
  unfold parseWindow at h
  simp only at h
  generalize partition ',' f = pr at h
  split at h
  · rename_i t' n' sc' htw hsc
    simp only [Option.some.injEq, Prod.mk.injEq] at h
    obtain ⟨rfl, rfl, rfl⟩ := h
    have hscr := parseNumberW_range _ 0 255 sc' (by decide) hsc
    have key : (t' = .normal → n' ≤ 65535) ∧ (t' = .mod → 2 ≤ n' ∧ n' ≤ 65535) ∧
        ((t' = .mss ∨ t' = .mtu) → 1 ≤ n' ∧ n' ≤ 1000) := by
      split at htw
      · simp only [Option.some.injEq, Prod.mk.injEq] at htw
        obtain ⟨rfl, rfl⟩ := htw
        simp
      · split at htw
        · generalize hp : parseNumberN (List.drop 4 pr.1) 1 1000 = o at htw
          cases o with
          | none => simp at htw
          | some v =>
            simp only [Option.map_some, Option.some.injEq, Prod.mk.injEq] at htw
            obtain ⟨rfl, rfl⟩ := htw
            have := parseNumberN_range _ 1 1000 v (by decide) hp
            refine ⟨by simp, by simp, fun _ => by omega⟩
        · split at htw
          · generalize hp : parseNumberN (List.drop 4 pr.1) 1 1000 = o at htw
            cases o with
            | none => simp at htw
            | some v =>
              simp only [Option.map_some, Option.some.injEq, Prod.mk.injEq] at htw
              obtain ⟨rfl, rfl⟩ := htw
              have := parseNumberN_range _ 1 1000 v (by decide) hp
              refine ⟨by simp, by simp, fun _ => by omega⟩
          · split at htw
            · generalize hp : parseNumberN (List.drop 1 pr.1) 2 65535 = o at htw
              cases o with
              | none => simp at htw
              | some v =>
                simp only [Option.map_some, Option.some.injEq, Prod.mk.injEq] at htw
                obtain ⟨rfl, rfl⟩ := htw
                have := parseNumberN_range _ 2 65535 v (by decide) hp
                refine ⟨by simp, fun _ => by omega, by simp⟩
            · generalize hp : parseNumberN pr.1 0 65535 = o at htw
              cases o with
              | none => simp at htw
              | some v =>
                simp only [Option.map_some, Option.some.injEq, Prod.mk.injEq] at htw
                obtain ⟨rfl, rfl⟩ := htw
                have := parseNumberN_range _ 0 65535 v (by decide) hp
                refine ⟨fun _ => by omega, by simp, by simp⟩
    exact ⟨key.1, key.2.1, key.2.2, fun s hs => by have := hscr s hs; omega⟩
  · simp at h

/-- one option item: kind 0..255, padding 0..255 -/
theorem parseOptionItem_range (raw : List Char) (k : Nat) (p : Option Nat)
    (h : parseOptionItem raw = some (k, p)) : k ≤ 255 ∧ ∀ n, p = some n → n ≤ 255 := by
  unfold parseOptionItem at h
  split at h
  · generalize hp : parseNumberN (List.drop 1 raw) 0 255 = o at h
    cases o with
    | none => simp at h
    | some v =>
      simp only [Option.map_some, Option.some.injEq, Prod.mk.injEq] at h
      have := parseNumberN_range _ 0 255 v (by decide) hp
      obtain ⟨h1, h2⟩ := h
      subst h1; subst h2
      exact ⟨by omega, by simp⟩
  · split at h
    · generalize hp : parseNumberN (List.drop 4 raw) 0 255 = o at h
      cases o with
      | none => simp at h
      | some v =>
        simp only [Option.map_some, Option.some.injEq, Prod.mk.injEq] at h
        have := parseNumberN_range _ 0 255 v (by decide) hp
        obtain ⟨h1, h2⟩ := h
        subst h1; subst h2
        exact ⟨by omega, by intro n hn; simp at hn; omega⟩
    · unfold optionOfName at h
      repeat' split at h
      all_goals simp only [Option.map_some, Option.map_none, Option.some.injEq, Prod.mk.injEq, reduceCtorEq] at h
      all_goals obtain ⟨h1, h2⟩ := h; subst h1; subst h2; exact ⟨by omega, by simp⟩

theorem optionsFold_range (items : List (List Char)) (acc r : List Nat × Nat)
    (hacc : (∀ k ∈ acc.1, k ≤ 255) ∧ acc.2 ≤ 255) (h : items.foldlM optionsStep acc = some r) :
    (∀ k ∈ r.1, k ≤ 255) ∧ r.2 ≤ 255 := by
  induction items generalizing acc with
  | nil => simp only [List.foldlM_nil, Option.pure_def, Option.some.injEq] at h; subst h; exact hacc
  | cons it rest ih =>
    simp only [List.foldlM_cons, Option.bind_eq_bind] at h
    cases hs : optionsStep acc it with
    | none => simp [hs] at h
    | some acc' =>
      simp only [hs, Option.bind_some] at h
      refine ih acc' ?_ h
      unfold optionsStep at hs
      cases hp : parseOptionItem it with
      | none => simp [hp] at hs
      | some kp =>
        simp only [hp, Option.some.injEq] at hs
        subst hs
        obtain ⟨hk, hpad⟩ := parseOptionItem_range it kp.1 kp.2 (by simp [hp])
        refine ⟨?_, ?_⟩
        · intro k hk'
          simp only [List.mem_append, List.mem_singleton] at hk'
          rcases hk' with hk' | hk'
          · exact hacc.1 k hk'
          · subst hk'; exact hk
        · cases h2 : kp.2 with
          | none => simpa [h2] using hacc.2
          | some n => simpa [h2] using hpad n h2

/-- `_parse_options`: every kind 0..255, EOL padding 0..255 -/
theorem parseOptionsField_range (f : List Char) (l : List Nat) (p : Nat)
    (h : parseOptionsField f = some (l, p)) : (∀ k ∈ l, k ≤ 255) ∧ p ≤ 255 := by
  unfold parseOptionsField at h
  exact optionsFold_range _ ([], 0) (l, p) ⟨by simp, by decide⟩ h

theorem quirksFold_legal (ver : Option Nat) (items : List (List Char)) (acc r : QSet)
    (hacc : ∀ q, acc q = true → quirkInvalidFor ver q = false)
    (h : items.foldlM (quirksStep ver) acc = some r) :
    ∀ q, r q = true → quirkInvalidFor ver q = false := by
  induction items generalizing acc with
  | nil => simp only [List.foldlM_nil, Option.pure_def, Option.some.injEq] at h; subst h; exact hacc
  | cons it rest ih =>
    simp only [List.foldlM_cons, Option.bind_eq_bind] at h
    cases hs : quirksStep ver acc it with
    | none => simp [hs] at h
    | some acc' =>
      simp only [hs, Option.bind_some] at h
      refine ih acc' ?_ h
      unfold quirksStep at hs
      cases hq : quirkOfName it with
      | none => simp [hq] at hs
      | some q0 =>
        simp only [hq] at hs
        split at hs
        · simp at hs
        · rename_i hinv
          simp only [Option.some.injEq] at hs
          subst hs
          intro q hqq
          simp only [QSet.insert, Bool.or_eq_true, beq_iff_eq] at hqq
          rcases hqq with hqq | hqq
          · exact hacc q hqq
          · subst hqq; simpa using hinv

/-- **C10, never silently accepted**: a TCP signature text the parser accepts lies inside every
    documented range, uses only known keywords and no quirk illegal for its IP version. -/
theorem parseTcpSig_ranges (t : List Char) (s : Sig) (h : parseTcpSig t = some s) :
    (s.ipVer = none ∨ s.ipVer = some 4 ∨ s.ipVer = some 6) ∧
    1 ≤ s.ttl ∧ s.ttl ≤ 255 ∧ s.olen ≤ 255 ∧ (∀ m, s.mss = some m → m ≤ 65535) ∧
    (s.wtype = .normal → s.wsize ≤ 65535) ∧ (s.wtype = .mod → 2 ≤ s.wsize ∧ s.wsize ≤ 65535) ∧
    ((s.wtype = .mss ∨ s.wtype = .mtu) → 1 ≤ s.wsize ∧ s.wsize ≤ 1000) ∧
    (∀ c, s.scale = some c → c ≤ 255) ∧ (∀ k ∈ s.layout, k ≤ 255) ∧ s.eolPad ≤ 255 ∧
    (∀ q, s.quirks q = true → quirkInvalidFor s.ipVer q = false) := by
  unfold parseTcpSig at h
  split at h
  · rename_i rVer rTtl rOlen rMss rWin rOpts rQuirks rPay _
    split at h
    · rename_i ver ttl bad olen mss wt wsz sc layout pad pay hver httl holen hmss hwin hopts hpay
      cases hq : parseQuirksField rQuirks ver with
      | none => simp [hq] at h
      | some q =>
        simp only [hq, Option.map_some, Option.some.injEq] at h
        subst h
        have h1 := parseTtl_range _ _ _ httl
        have h2 := parseNumberN_range _ 0 255 olen (by decide) holen
        have h3 := parseNumberW_range _ 0 65535 mss (by decide) hmss
        have h4 := parseWindow_range _ _ _ _ hwin
        have h5 := parseOptionsField_range _ _ _ hopts
        have h6 : ∀ q', q q' = true → quirkInvalidFor ver q' = false := by
          unfold parseQuirksField at hq
          exact quirksFold_legal ver _ QSet.empty q (by intro q' hq'; simp [QSet.empty] at hq') hq
        have h0 : ver = none ∨ ver = some 4 ∨ ver = some 6 := by
          unfold parseIpVersion at hver
          split at hver
          · simp only [Option.some.injEq] at hver; left; exact hver.symm
          · split at hver
            · simp only [Option.some.injEq] at hver; right; left; exact hver.symm
            · split at hver
              · simp only [Option.some.injEq] at hver; right; right; exact hver.symm
              · simp at hver
        have h2' : olen ≤ 255 := by omega
        exact ⟨h0, h1.1, h1.2, h2', fun m hm => by have := h3 m hm; omega, h4.1, h4.2.1, h4.2.2.1,
          h4.2.2.2, h5.1, h5.2, h6⟩
    · simp at h
  · simp at h

/-! non-vacuity -/
def errOf : Except LoadErr Db → Option LoadErr
  | .error e => some e
  | .ok _ => none

example : errOf (parseLines (["[mtu]", "sig = 1500"].map String.toList)) = some (.parsing 2) := by decide +kernel
example : errOf (parseLines (["; c", "", "[tcp]"].map String.toList)) = some (.parsing 3) := by decide +kernel
example : errOf (parseLines (["[http:request]", "label = x:unix:a:b"].map String.toList)) = some (.parsing 2) := by
  decide +kernel

end P0f
