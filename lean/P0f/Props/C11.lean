import P0f.Props.C09
import P0f.Props.C10
import P0f.Model.Api
/-
  C11 — database (re)load is atomic, idempotent and never observed half-done.

  The state pyp0f keeps between calls is the live record map of the `Database` object (`Db`).
  `apiStep` is one public call against it, `apiRun` a whole history.  All theorems quantify over
  every history / every file / every previous database.
-/
namespace P0f

/-- **C11, failed load**: a load that raises leaves the previously loaded records exactly as they were -/
theorem failed_load_preserves (db : Db) (f : FileArg) (e : LoadErr)
    (h : (apiStep db (.load f)).2 = .loadErr e ∨ (dbLoad db f).1 = .error e) :
    (apiStep db (.load f)).1 = db := by
  simp only [apiStep, dbLoad]
  cases hp : parseFile f with
  | ok d =>
    rcases h with h | h
    · simp [apiStep, dbLoad, hp] at h
    · simp [dbLoad, hp] at h
  | error e' => rfl

/-- **C11, successful load replaces**: the database after a successful load does not depend on what was
    loaded before (no accumulation across loads) ... -/
theorem load_replaces (db db' : Db) (f : FileArg) (h : (dbLoad db f).1.toOption.isSome = true) :
    (apiStep db (.load f)).1 = (apiStep db' (.load f)).1 := by
  simp only [apiStep, dbLoad] at *
  cases hp : parseFile f with
  | ok d => rfl
  | error e => simp [hp, Except.toOption] at h

/-- ... and is exactly the database the file denotes (C09's `specDb`) -/
theorem load_result (db : Db) (t : List Char) (h : (dbLoad db (.text t)).1.toOption.isSome = true) :
    (apiStep db (.load (.text t))).1 = specDb (pyLines t) := by
  simp only [apiStep, dbLoad, parseFile] at *
  cases hp : parseText t with
  | ok d => simpa using parseText_records t d hp
  | error e => simp [hp, Except.toOption] at h

/-- **C11, idempotent**: loading the same file twice gives the same database as loading it once -/
theorem load_idempotent (db : Db) (f : FileArg) :
    (apiStep (apiStep db (.load f)).1 (.load f)).1 = (apiStep db (.load f)).1 := by
  simp only [apiStep, dbLoad]
  cases hp : parseFile f with
  | ok d => simp [hp]
  | error e => simp [hp]

/-- **C11, reader**: at every line-read point of a load a reader of the shared object sees either
    the complete old contents or the complete new contents -/
theorem reader_old_or_new (cur : Db) (f : FileArg) :
    ∀ d ∈ loadObservations cur f, d = cur ∨ d = (dbLoad cur f).2 := by
  intro d hd
  cases f with
  | unreadable => simp [loadObservations] at hd; exact Or.inl hd
  | text t =>
    simp only [loadObservations, List.mem_append, List.mem_map, List.mem_range, List.mem_singleton] at hd
    rcases hd with ⟨_, _, rfl⟩ | rfl
    · exact Or.inl rfl
    · exact Or.inr rfl

/-- and the new contents are only ever seen if the load succeeds -/
theorem reader_new_only_on_success (cur : Db) (f : FileArg) (e : LoadErr)
    (h : (dbLoad cur f).1 = .error e) : ∀ d ∈ loadObservations cur f, d = cur := by
  intro d hd
  rcases reader_old_or_new cur f d hd with h1 | h1
  · exact h1
  · rw [h1]
    simp only [dbLoad] at *
    cases hp : parseFile f with
    | ok d' => simp [hp] at h
    | error e' => rfl

/-- only `load` changes the database: fingerprinting, lookups, `len` and impersonation leave every
    record, label and signature as they are (the database part of C12) -/
theorem only_load_changes (db : Db) (c : Call) (h : ∀ f, c ≠ .load f) : (apiStep db c).1 = db := by
  cases c with
  | load f => exact absurd rfl (h f)
  | _ => rfl

/-! ### before any successful load -/

theorem iter_empty (k : RecKind) (d : Option Dir) : Db.empty.iter k d = .error .database := by
  unfold Db.iter Db.empty
  cases secOf k d <;> rfl

/-- **C11, not loaded = DatabaseError, never "no match"**: on a database no successful load has filled,
    every fingerprint call raises (PacketError for an unusable packet, else DatabaseError) -/
theorem unloaded_is_error_tcp (p : PktL) (s : Nat) (d : Int) :
    apiFpTcp Db.empty p s d = .error .packet ∨ apiFpTcp Db.empty p s d = .error .database := by
  unfold apiFpTcp
  split
  · exact Or.inl rfl
  · right; simp [iter_empty]

theorem unloaded_is_error_mtu (p : PktL) :
    apiFpMtu Db.empty p = .error .packet ∨ apiFpMtu Db.empty p = .error .database := by
  unfold apiFpMtu
  split
  · exact Or.inl rfl
  · right; simp [iter_empty]

theorem unloaded_is_error_http (b : Bytes) :
    apiFpHttp Db.empty b = .error .packet ∨ apiFpHttp Db.empty b = .error .database := by
  unfold apiFpHttp
  split
  · right; simp [iter_empty]
  · exact Or.inl rfl

/-- a history in which no load succeeds leaves the database unloaded -/
theorem no_successful_load_stays_empty (h : List Call)
    (hl : ∀ f, Call.load f ∈ h → ∃ e, parseFile f = .error e) : (apiRun Db.empty h).1 = Db.empty := by
  induction h with
  | nil => rfl
  | cons c cs ih =>
    simp only [apiRun]
    have hstep : (apiStep Db.empty c).1 = Db.empty := by
      cases c with
      | load f =>
        obtain ⟨e, he⟩ := hl f (by simp)
        simp [apiStep, dbLoad, he]
      | _ => rfl
    rw [hstep]
    exact ih (fun f hf => hl f (by simp [hf]))

/-! ### histories (also C16): what a call returns depends on the history only through the live database,
    and that is the database of the last successful load -/

theorem apiRun_append (db : Db) (a b : List Call) :
    apiRun db (a ++ b) = ((apiRun (apiRun db a).1 b).1, (apiRun db a).2 ++ (apiRun (apiRun db a).1 b).2) := by
  induction a generalizing db with
  | nil => simp [apiRun]
  | cons c cs ih => simp only [List.cons_append, apiRun, ih]

/-- the database after a history = the database of the last successful load in it -/
def lastLoaded : Db → List Call → Db
  | db, [] => db
  | db, .load f :: cs =>
    match parseFile f with
    | .ok d => lastLoaded d cs
    | .error _ => lastLoaded db cs
  | db, _ :: cs => lastLoaded db cs

theorem apiRun_db (db : Db) (h : List Call) : (apiRun db h).1 = lastLoaded db h := by
  induction h generalizing db with
  | nil => rfl
  | cons c cs ih =>
    simp only [apiRun]
    cases c with
    | load f =>
      simp only [apiStep, dbLoad, lastLoaded]
      cases hp : parseFile f with
      | ok d => simp [ih]
      | error e => simp [ih]
    | _ => simp [apiStep, lastLoaded, ih]

/-- **C11 / C16, history independence**: two histories that end with the same successful load answer
    any following call identically, whatever was loaded, fingerprinted or impersonated before -/
theorem history_independent (db1 db2 : Db) (h1 h2 : List Call) (f : FileArg) (c : Call)
    (hok : ∃ d, parseFile f = .ok d) :
    (apiRun db1 (h1 ++ [.load f, c])).2.getLast? = (apiRun db2 (h2 ++ [.load f, c])).2.getLast? ∧
    (apiRun db1 (h1 ++ [.load f, c])).1 = (apiRun db2 (h2 ++ [.load f, c])).1 := by
  obtain ⟨d, hd⟩ := hok
  simp only [apiRun_append, apiRun, apiStep, dbLoad, hd]
  constructor
  · simp [List.getLast?_append]
  · trivial

/-- repeating a call, or interleaving calls that are not loads, does not change any answer -/
theorem repeat_stable (db : Db) (c c' : Call) (hc' : ∀ f, c' ≠ .load f) :
    (apiStep (apiStep db c').1 c).2 = (apiStep db c).2 := by
  rw [only_load_changes db c' hc']

end P0f
