import P0f.Generated.Tables
import P0f.Expected
/-
  Proof obligations tying the regenerated tables to the ones the theorems use.  Both sides are
  closed literals, so `rfl` is a complete decision: it fails to build exactly when a table differs.
-/
namespace P0f.TablesOk
open P0f

theorem quirkValues_ok : Generated.quirkValues = Expected.quirkValues := rfl
theorem quirkStrings_ok : Generated.quirkStrings = Expected.quirkStrings := rfl
theorem optionValues_ok : Generated.optionValues = Expected.optionValues := rfl
theorem optionStrings_ok : Generated.optionStrings = Expected.optionStrings := rfl
theorem optionSizes_ok : Generated.optionSizes = Expected.optionSizes := rfl
theorem tcpFlags_ok : Generated.tcpFlags = Expected.tcpFlags := rfl
theorem minTcp_ok : Generated.minTcp4 = Expected.minTcp4 ∧ Generated.minTcp6 = Expected.minTcp6 := ⟨rfl, rfl⟩
theorem wildcard_ok : Generated.wildcard = Expected.wildcard ∧ Generated.wildcardField = Expected.wildcardField := ⟨rfl, rfl⟩
theorem invalidQuirks_ok : Generated.invalidQuirks = Expected.invalidQuirks := rfl
theorem skipped_ok : Generated.skippedParams = Expected.skippedParams ∧ Generated.skippedLines = Expected.skippedLines := ⟨rfl, rfl⟩
theorem directions_ok : Generated.directions = Expected.directions := rfl
theorem options_ok : Generated.maxDist = Expected.maxDist ∧ Generated.minWait = Expected.minWait ∧
    Generated.maxWait = Expected.maxWait ∧ Generated.grace = Expected.grace ∧
    Generated.minScale = Expected.minScale ∧ Generated.maxScale = Expected.maxScale := ⟨rfl, rfl, rfl, rfl, rfl, rfl⟩

end P0f.TablesOk
