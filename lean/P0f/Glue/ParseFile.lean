import P0f.Model.DbParse
import P0f.Model.Q
import P0f.Generated.Logic.ParseSection
import P0f.Generated.Logic.ParseTcpSig
import P0f.Generated.Logic.ParseMtuSig
import P0f.Generated.Logic.ParseLabel
import P0f.Generated.Logic.ParseHttpSig
/-
  Binding glue for the printed `_parse_file` (hand-written, part of the binding table):
  `record_cls._signature_cls.parse(value)` and `record_cls._label_cls.parse(value)` dispatch on the record class to the
  *printed* `TCPSignature.parse` / `MTUSignature.parse` / `HTTPSignature.parse` / `Label.parse`;
  `MTULabel.parse(v)` is `MTULabel(v)`.
-/
namespace P0f.Gen
open P0f

def parseSigFor (k : RecKind) (v : List Char) : Option DbSig :=
  match k with
  | .mtu => (P0f.Gen.parseMtuSig v).map fun n => DbSig.mtu n.toNat
  | .tcp => (P0f.Gen.parseTcpSig v).map DbSig.tcp
  | .http => (P0f.Gen.parseHttpSig v).map DbSig.http

def parseLabelFor (k : RecKind) (v : List Char) : Option DbLabel :=
  match k with
  | .mtu => some (.mtu v)
  | _ => (P0f.Gen.parseLabel v).map fun l => DbLabel.os l []

end P0f.Gen
