import P0f.Model.DbParse
import P0f.Generated.Logic.DumpLabel
/-
  Binding glue for the printed `RecordsDatabase.get_random`: `record.label.dump()` dispatches on the label class - `MTULabel.dump()`
  is the name itself, `Label.dump()` the PRINTED one.
-/
namespace P0f.Gen
open P0f

def dbLabelDump : DbLabel → List Char
  | .mtu n => n
  | .os l _ => P0f.Gen.dumpLabel l

end P0f.Gen
