import P0f.LogicOk.Labels
import P0f.Generated.Logic.GetRandom
import P0f.LogicOk.ParseFile
/-
  `RecordsDatabase.get_random` (C15) against the source text: which records a label text addresses.
-/
namespace P0f
open P0f.Py

theorem gen_dbLabelDump (lb : DbLabel) : Gen.dbLabelDump lb = lb.dump := by
  cases lb with
  | mtu n => rfl
  | os l sys => simp only [Gen.dbLabelDump, DbLabel.dump, gen_dumpLabel]

/-- every record of the store carries a label (what the parser guarantees: a `sig` line is only accepted after a `label` line) -/
def Db.Labelled (db : Db) : Prop := ∀ s l r, db s = some l → r ∈ l → r.label ≠ none

/-- `get_random` as printed from the source (list comprehension with its filter, the emptiness test, the DatabaseError of a missing
    list) = the model's candidate list: exactly the records of the addressed list whose label dumps to the given text, in file order
    (C15), on a store whose records all carry a label -/
theorem gen_getRandom (db : Db) (raw : List Char) (k : RecKind) (d : Option Dir) (hl : db.Labelled) :
    Gen.getRandom db raw k d = Db.candidates db raw k d := by
  first
  | exact rfl
  | (unfold Gen.getRandom Db.candidates
     cases hi : Db.iter db k d with
     | error e =>
       have : e = LoadErr.database := by
         unfold Db.iter at hi
         cases hs : secOf k d with
         | none => simp [hs] at hi; exact hi.symm
         | some s =>
           simp only [hs] at hi
           cases hd : db s with
           | none => simp [hd] at hi; exact hi.symm
           | some l' => simp [hd] at hi
       subst this
       rfl
     | ok l =>
       have hmem : ∀ r ∈ l, r.label ≠ none := by
         intro r hr
         unfold Db.iter at hi
         cases hs : secOf k d with
         | none => simp [hs] at hi
         | some s =>
           simp only [hs] at hi
           cases hd : db s with
           | none => simp [hd] at hi
           | some l' =>
             simp only [hd, Except.ok.injEq] at hi
             subst hi
             exact hl s l' r hd hr
       have hf : (List.filter (fun record => raw == (Option.elim record.label [] Gen.dbLabelDump)) l)
           = l.filter (·.labelIs raw) := by
         apply List.filter_congr
         intro r hr
         unfold DbRec.labelIs
         cases hlab : r.label with
         | none => exact absurd hlab (hmem r hr)
         | some lb => simp only [Option.elim_some, gen_dbLabelDump]
       simp only [Except.toOption, Option.elim_some]
       simp only [List.map_id', hf, Bool.not_not])


/-! ### loaded databases are labelled -/

theorem labelled_set (db : Db) (s : Section) (l : List DbRec) (hd : db.Labelled) (hl : ∀ r ∈ l, r.label ≠ none) :
    (db.set s (some l)).Labelled := by
  intro t l' r ht hr
  unfold Db.set at ht
  by_cases hts : t = s
  · simp only [hts, if_true, Option.some.injEq] at ht
    subst ht
    exact hl r hr
  · simp only [hts, if_false] at ht
    exact hd t l' r ht hr

theorem labelled_create (db : Db) (s : Section) (hd : db.Labelled) : (db.create s).Labelled := by
  unfold Db.create
  cases h : db s with
  | some l => exact hd
  | none => exact labelled_set db s [] hd (by intro r hr; cases hr)

theorem labelled_add (db db' : Db) (s : Section) (r : DbRec) (hd : db.Labelled) (hr : r.label ≠ none)
    (h : db.add s r = .ok db') : db'.Labelled := by
  unfold Db.add at h
  cases hs : db s with
  | none => simp [hs] at h
  | some l =>
    simp only [hs, Except.ok.injEq] at h
    subst h
    apply labelled_set db s _ hd
    intro r' hr'
    rcases List.mem_append.mp hr' with h1 | h1
    · exact hd s l r' hs h1
    · simp only [List.mem_singleton] at h1
      subst h1
      exact hr

/-- invariant of the line loop: whenever a `sig` line can be accepted a label has been read, and every record filed so far has one -/
def LabelInv (st : PSt) : Prop := (st.state = PState.needSig → st.label ≠ none) ∧ st.db.Labelled

theorem stepLine_labelInv (st st' : PSt) (n : Nat) (raw : List Char) (hj : LabelInv st) (h : stepLine st n raw = .ok st') :
    LabelInv st' := by
  obtain ⟨hlab, hdb⟩ := hj
  unfold stepLine at h
  simp only [] at h
  split at h
  · cases h; exact ⟨hlab, hdb⟩
  · split at h
    · cases h
    · split at h
      · cases h; exact ⟨hlab, hdb⟩
      · split at h
        · split at h
          · cases h
          · cases h
            exact ⟨(by intro hs; cases hs), labelled_create _ _ hdb⟩
        · split at h
          · -- sig
            split at h
            · rename_i s hstate hsec
              split at h
              · cases h
              · rename_i sg hsg
                split at h
                · rename_i db' hadd
                  cases h
                  refine ⟨hlab, ?_⟩
                  exact labelled_add st.db db' s _ hdb (hlab hstate) hadd
                · cases h
            · cases h
          · split at h
            · -- label
              split at h
              · cases h
              · split at h
                · split at h
                  · cases h
                  · cases h
                    exact ⟨(by intro _; simp), hdb⟩
                · cases h
            · split at h
              · -- sys
                split at h
                · cases h
                  exact ⟨(by intro _; simp), hdb⟩
                · cases h
              · split at h
                · cases h; exact ⟨hlab, hdb⟩
                · cases h

theorem parseGo_labelInv (ls : List (List Char)) (n : Nat) (st st' : PSt) (hj : LabelInv st) (h : parseGo ls n st = .ok st') :
    LabelInv st' := by
  induction ls generalizing n st with
  | nil => unfold parseGo at h; cases h; exact hj
  | cons l t ih =>
    unfold parseGo at h
    cases hs : stepLine st n l with
    | error e => simp [hs] at h
    | ok st1 =>
      simp only [hs] at h
      exact ih (n + 1) st1 (stepLine_labelInv st st1 n l hj hs) h

/-- every record of a database that `_parse_file` returned carries a label -/
theorem parseLines_labelled (ls : List (List Char)) (db : Db) (h : parseLines ls = .ok db) : db.Labelled := by
  unfold parseLines at h
  cases hg : parseGo ls 1 PSt.init with
  | error e => simp [hg] at h
  | ok st =>
    simp only [hg, Except.ok.injEq] at h
    subst h
    have : LabelInv PSt.init := ⟨(by intro hs; cases hs), (by intro s l r hs; simp [PSt.init, Db.empty] at hs)⟩
    exact (parseGo_labelInv ls 1 PSt.init st this hg).2

/-- **C15 against the source text, for loaded databases**: on the store the printed `_parse_file` returns for ANY file, the printed
    `get_random` addresses exactly the records of the list whose label dumps (the printed `Label.dump`) to the given text -/
theorem source_getRandom_loaded (ls : List (List Char)) (db : Db) (h : Gen.parseFileLines ls = .ok db)
    (raw : List Char) (k : RecKind) (d : Option Dir) :
    Gen.getRandom db raw k d = Db.candidates db raw k d := by
  rw [gen_parseFileLines] at h
  exact gen_getRandom db raw k d (parseLines_labelled ls db h)

end P0f
