import P0f.LogicOk.Prelude
import P0f.LogicOk.TcpMatch
import P0f.LogicOk.GuessDistance
import P0f.Props.C02
import P0f.Generated.Logic.FindTcpMatch
import P0f.Generated.Logic.TcpDistance
namespace P0f

theorem gen_findLoop (recs : List Rec) (p : PSig) (d : Int) (l : List Rec) (g f : Option TcpMatch) :
    Gen.findTcpMatch_loop0 recs p d l g f = findLoop p d l f g := by
  first
  | exact rfl
  | (induction l generalizing g f with
     | nil =>
       unfold Gen.findTcpMatch_loop0 findLoop findFinish
       cases g <;> cases f <;> simp
     | cons r rs ih =>
       unfold Gen.findTcpMatch_loop0 findLoop
       rw [gen_tcpSignaturesMatch]
       cases h : tcpMatch r.sig p d with
       | none => simp [ih]
       | some mt =>
         cases mt <;> cases hg : r.generic <;> cases g <;> cases f <;> simp [ih])

/-- `find_tcp_match` as printed from the source = the model's (C02) -/
theorem gen_findTcpMatch (recs : List Rec) (p : PSig) (d : Int) :
    Gen.findTcpMatch recs p d = findTcpMatch recs p d := by
  first
  | exact rfl
  | (unfold Gen.findTcpMatch findTcpMatch
     exact gen_findLoop recs p d recs none none)

/-- `TCPResult.__post_init__` (the distance) as printed from the source = the model's (C02) -/
theorem gen_distance (m : Option TcpMatch) (pttl : Nat) : Gen.distance m pttl = distance m pttl := by
  first
  | exact rfl
  | (unfold Gen.distance distance
     rw [gen_guessDistance]
     rcases m with _ | ⟨mt, r⟩
     · simp
     · cases mt <;> simp)

/-- **C02 against the source text** -/
theorem source_findTcpMatch_eq_spec (recs : List Rec) (p : PSig) (d : Int) :
    Gen.findTcpMatch recs p d = specFind recs p d := by
  rw [gen_findTcpMatch]; exact findTcpMatch_eq_spec recs p d

end P0f
