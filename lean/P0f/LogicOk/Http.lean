import P0f.LogicOk.Prelude
import P0f.Props.C06
import P0f.LogicOk.HeadersMatch
import P0f.Generated.Logic.HttpSignaturesMatch
import P0f.Generated.Logic.FindHttpMatch
import P0f.Generated.Logic.HttpDishonest
import P0f.Generated.Logic.HttpSoftware
namespace P0f
open P0f.Py

/-- `http_signatures_match` as printed from the source = the model's (C06; `headers_match` through `gen_headersMatch`) -/
theorem gen_httpSigMatch (s : HttpSig) (minor : Nat) (ph : List Hdr) : Gen.httpSigMatch s minor ph = httpSigMatch s minor ph := by
  first
  | exact rfl
  | (unfold Gen.httpSigMatch httpSigMatch
     have hv : (optInt s.version == ((minor : Nat) : Int)) = (s.version == some minor) := by
       cases h : s.version with
       | none =>
         have : (-1 : Int) ≠ ((minor : Nat) : Int) := by omega
         simp only [optInt, beq_eq_false_iff_ne.mpr this]; rfl
       | some k =>
         simp only [optInt, natCast_beq_cast]
         by_cases hk : k = minor
         · subst hk; simp
         · have : some k ≠ some minor := fun e => hk (Option.some.inj e)
           rw [beq_eq_false_iff_ne.mpr hk, beq_eq_false_iff_ne.mpr this]
     have ha : (!(!List.isEmpty (s.absent.filter fun a => (ph.map fun x => lower x.name).contains a)))
         = !(s.absent.any fun a => (ph.map fun x => lower x.name).contains a) := by
       induction s.absent with
       | nil => rfl
       | cons a as ih =>
         simp only [List.filter_cons, List.any_cons]
         cases (ph.map fun x => lower x.name).contains a <;> simp_all
     first
     | (simp only [optInt_beq_wild, hv, ha, gen_headersMatch]; done)
     | (have hn : ∀ o : Option Nat, o.isNone = !o.isSome := fun o => by cases o <;> rfl
        simp only [optInt_beq_wild, optInt_bne_wild, optInt_bne_cast, hv, ha, gen_headersMatch, hn]; grind))

theorem gen_findHttpLoop (recs : List HttpRec) (minor : Nat) (ph : List Hdr) (l : List HttpRec) (g : Option HttpRec) :
    Gen.findHttpMatch_loop0 recs minor ph l g = findHttpLoop minor ph l g := by
  first
  | exact rfl
  | (induction l generalizing g with
     | nil => unfold Gen.findHttpMatch_loop0 findHttpLoop; rfl
     | cons r rs ih =>
       unfold Gen.findHttpMatch_loop0 findHttpLoop
       rw [gen_httpSigMatch]
       cases httpSigMatch r.sig minor ph <;> cases r.generic <;> cases g <;> simp [ih])

/-- `find_http_match` as printed from the source = the model's (C06) -/
theorem gen_findHttpMatch (recs : List HttpRec) (minor : Nat) (ph : List Hdr) :
    Gen.findHttpMatch recs minor ph = findHttpMatch recs minor ph := by
  first
  | exact rfl
  | (unfold Gen.findHttpMatch findHttpMatch
     exact gen_findHttpLoop recs minor ph recs none)

/-- `HTTPResult.__post_init__` (`dishonest`) as printed from the source = the model's (C06) -/
theorem gen_dishonest (m : Option HttpRec) (ph : List Hdr) : Gen.dishonest m ph = dishonest m ph := by
  first
  | exact rfl
  | (unfold Gen.dishonest dishonest
     rcases m with _ | r
     · simp
     · cases softwareOf ph <;> cases h : r.sig.software <;> simp [h])

/-- `HTTP.software` (with `_get_header_value` inlined) as printed from the source = the model's: the User-Agent value unless it is
    missing or empty, else the Server value (C06: what `dishonest` compares with the signature's expected software) -/
theorem gen_softwareOf (ph : List Hdr) : Gen.softwareOf ph = softwareOf ph := by
  first
  | exact rfl
  | (unfold Gen.softwareOf softwareOf headerValue firstHit
     generalize "User-Agent".toList = ua
     generalize "Server".toList = sv
     simp only []
     cases h1 : ph.find? (fun h => lower h.name == lower ua) with
     | none => cases ph.find? (fun h => lower h.name == lower sv) <;> rfl
     | some u =>
       simp only [Option.elim_some, Option.map_some]
       by_cases hv : u.value.isEmpty = true
       · simp only [hv, Bool.not_true, Bool.false_eq_true, if_false, if_true]
         cases ph.find? (fun h => lower h.name == lower sv) <;> rfl
       · have hv' : u.value.isEmpty = false := by simpa using hv
         simp only [hv', Bool.not_false, if_true, Bool.false_eq_true, if_false])

/-- **C06 (selection) against the source text** -/
theorem source_findHttpMatch_eq_spec (recs : List HttpRec) (minor : Nat) (ph : List Hdr) :
    Gen.findHttpMatch recs minor ph = specFindHttp recs minor ph := by
  rw [gen_findHttpMatch]; exact findHttpMatch_eq_spec recs minor ph

end P0f
