import P0f.Model.Q
import P0f.Model.WMult
/-
  Lemmas the bridging theorems share: casts the translator inserts (Python ints are `Int`, the model mostly uses
  `Nat`), Python's floor division / modulo against the model's, WILDCARD encodings.
-/
namespace P0f

/-- closing tactic for the Boolean / arithmetic residue of a bridging goal -/
macro "gen_finish" : tactic => `(tactic| first | rfl | (simp; done) | grind | (simp <;> grind) | (simp at * <;> omega))

@[simp] theorem natCast_bne_zero (n : Nat) : (((n : Nat) : Int) != 0) = (n != 0) := by
  cases h : (n != 0) <;> simp_all
@[simp] theorem natCast_beq_cast (n k : Nat) : (((n : Nat) : Int) == ((k : Nat) : Int)) = (n == k) := by
  by_cases h : n = k
  · subst h; simp
  · have : ((n : Nat) : Int) ≠ (k : Int) := by omega
    rw [beq_eq_false_iff_ne.mpr this, beq_eq_false_iff_ne.mpr h]
@[simp] theorem natCast_bne_cast (n k : Nat) : (((n : Nat) : Int) != ((k : Nat) : Int)) = (n != k) := by
  simp only [bne, natCast_beq_cast]
@[simp] theorem natCast_beq_ofNat (n k : Nat) : (((n : Nat) : Int) == (no_index (OfNat.ofNat k) : Int)) = (n == k) := by
  have : (OfNat.ofNat k : Int) = ((k : Nat) : Int) := rfl
  rw [this, natCast_beq_cast]
@[simp] theorem natCast_bne_ofNat (n k : Nat) : (((n : Nat) : Int) != (no_index (OfNat.ofNat k) : Int)) = (n != k) := by
  simp only [bne, natCast_beq_ofNat]
@[simp] theorem optInt_beq_wild (o : Option Nat) : (optInt o == -1) = o.isNone := by
  cases o with
  | none => rfl
  | some k =>
    have : ((k : Nat) : Int) ≠ -1 := by omega
    simp only [optInt, Option.isNone_some]
    exact beq_eq_false_iff_ne.mpr this
@[simp] theorem optInt_bne_wild (o : Option Nat) : (optInt o != -1) = o.isSome := by
  cases o <;> simp [bne, optInt_beq_wild]
@[simp] theorem optInt_bne_cast (o : Option Nat) (n : Nat) : (optInt o != ((n : Nat) : Int)) = (o != some n) := by
  cases o with
  | none =>
    have : (-1 : Int) ≠ ((n : Nat) : Int) := by omega
    simp only [optInt, bne, beq_eq_false_iff_ne.mpr this]
    rfl
  | some k =>
    simp only [optInt, natCast_bne_cast]
    by_cases h : k = n
    · subst h; simp
    · have : some k ≠ some n := fun e => h (Option.some.inj e)
      simp only [bne, beq_eq_false_iff_ne.mpr h, beq_eq_false_iff_ne.mpr this]
@[simp] theorem optBoolInt_bne_wild (o : Option Bool) : (optBoolInt o != -1) = o.isSome := by
  cases o with
  | none => rfl
  | some b => cases b <;> rfl
@[simp] theorem optBoolInt_bne_bool (o : Option Bool) (b : Bool) :
    (optBoolInt o != (if b then (1 : Int) else 0)) = (o != some b) := by
  cases o with
  | none => cases b <;> rfl
  | some c => cases c <;> cases b <;> rfl

/-- Python's `a % d != 0` (floor modulo) against the model's Euclidean one: zero-ness agrees for every divisor -/
theorem fmod_bne_zero (a d : Int) : (Int.fmod a d != 0) = !(a % d == 0) := by
  have h1 : Int.fmod a d = 0 ↔ d ∣ a := ⟨Int.dvd_of_fmod_eq_zero, Int.fmod_eq_zero_of_dvd⟩
  have h2 : a % d = 0 ↔ d ∣ a := Int.dvd_iff_emod_eq_zero.symm
  by_cases h : d ∣ a
  · rw [h1.mpr h, h2.mpr h]; rfl
  · have a1 : Int.fmod a d ≠ 0 := fun x => h (h1.mp x)
    have a2 : a % d ≠ 0 := fun x => h (h2.mp x)
    have e1 : (Int.fmod a d != 0) = true := by simpa using a1
    have e2 : (a % d == 0) = false := by simpa using a2
    rw [e1, e2]; rfl

@[simp] theorem fmod_natCast (a b : Nat) : Int.fmod ((a : Nat) : Int) ((b : Nat) : Int) = ((a % b : Nat) : Int) := by
  rw [Int.fmod_eq_emod_of_nonneg _ (Int.natCast_nonneg b)]; rfl

@[simp] theorem fdiv_natCast (a b : Nat) : Int.fdiv ((a : Nat) : Int) ((b : Nat) : Int) = ((a / b : Nat) : Int) := by
  rw [Int.fdiv_eq_ediv_of_nonneg _ (Int.natCast_nonneg b)]; rfl

/-- the first-hit search of `calculate_window_multiplier`, Python arithmetic against the model's -/
theorem firstHit_divides (win : Nat) (l : List (Int × Bool)) :
    firstHit l (fun x => (x.1 != 0 && !(Int.fmod ((win : Nat) : Int) x.1 != 0)))
      (fun x => (Int.fdiv ((win : Nat) : Int) x.1, x.2)) ((-1 : Int), false)
    = (match l.find? (divides win) with | some (d, m) => ((win : Int) / d, m) | none => ((-1 : Int), false)) := by
  unfold firstHit
  induction l with
  | nil => rfl
  | cons x xs ih =>
    obtain ⟨d, m⟩ := x
    simp only [List.find?, divides, fmod_bne_zero, Bool.not_not]
    by_cases h : (d != 0 && (win : Int) % d == 0) = true
    · simp only [h]
      have : d ∣ (win : Int) := by
        simp only [Bool.and_eq_true, beq_iff_eq] at h
        exact Int.dvd_iff_emod_eq_zero.mpr h.2
      rw [Int.fdiv_eq_ediv_of_dvd this]
    · simp only [Bool.not_eq_true] at h
      simp only [h]
      simpa [divides, fmod_bne_zero] using ih

end P0f
