import P0f.LogicOk.Prelude
import P0f.Model.Find
import P0f.Generated.Logic.GuessDistance
namespace P0f
/-- `guess_distance` as printed from the source = the model's (C02) -/
theorem gen_guessDistance (ttl : Nat) : Gen.guessDistance ttl = guessDistance ttl := by
  first
  | exact rfl
  | (unfold Gen.guessDistance guessDistance firstHit
     simp only [List.find?]
     grind)
  | (unfold Gen.guessDistance guessDistance
     grind)
end P0f
