import P0f.LogicOk.Uptime
import P0f.LogicOk.RoundFrequency
import P0f.Props.C13
import P0f.Generated.Logic.WindowMultiplier
import P0f.Generated.Logic.TcpSignaturesMatch
import P0f.Generated.Logic.ImpersonateOptions
import P0f.Generated.Logic.ReadHeaders
import P0f.Generated.Logic.ReadPayload
import P0f.Generated.Logic.ParseFile
import P0f.Props.C04Http
/-
  No ZeroDivisionError in the uptime path (C04, C13): the division-safety companions the translator prints next to
  `fingerprint_uptime` and `Uptime.__post_init__` (same control skeleton, `false` exactly where a division is reached with a zero
  divisor) are `true` for every input in the documented threshold domain.
-/
namespace P0f

/-- a reading that passed `min_timestamp_scale <= raw_frequency` (a positive threshold) truncates to a non-negative integer -/
theorem trunc_nonneg_of_min (o : UpOpts) (hD : o.Dom) (r : Q)
    (h : Q.le (Q.mk (o.minScaleN : Int) o.minScaleD) r = true) : 0 ≤ Q.trunc r := by
  unfold Q.le at h
  simp only [decide_eq_true_eq] at h
  have h1 : (0 : Int) ≤ (o.minScaleN : Int) * (r.den : Int) := Int.mul_nonneg (by omega) (by omega)
  have h2 : (0 : Int) ≤ r.num * (o.minScaleD : Int) := Int.le_trans h1 h
  have hd := hD.minD
  have hn : 0 ≤ r.num := by
    by_cases hneg : r.num < 0
    · exfalso
      have : r.num * (o.minScaleD : Int) < 0 := Int.mul_neg_of_neg_of_pos hneg (by omega)
      omega
    · omega
  unfold Q.trunc
  exact Int.tdiv_nonneg hn (by omega)

theorem isZero_ofInt (x : Int) : Q.isZero (Q.ofInt x) = (x == 0) := rfl

/-- `Uptime.__post_init__` never divides by zero on a reading that truncates to a non-negative integer: `round_frequency` is
    positive there -/
theorem gen_uptimePostInit_safe (ts : Nat) (raw : Q) (h : 0 ≤ Q.trunc raw) : Gen.uptimePostInit_safe ts raw = true := by
  first
  | exact rfl
  | (unfold Gen.uptimePostInit_safe
     rw [gen_roundFrequency raw h]
     have h1 := (roundFrequency_spec (Q.trunc raw).toNat).1
     generalize roundFrequency (Q.trunc raw).toNat = f at *
     have e1 : (((f : Nat) : Int) == 0) = false := by simp; omega
     have e2 : ((((((f : Nat) : Int) * 60) * 60) * 24) == 0) = false := by simp; omega
     simp only [e1, e2, Bool.false_eq_true, if_false])

/-- **C04 / C13: `fingerprint_uptime` never raises ZeroDivisionError** - for every packet pair, clock and threshold set of the
    documented domain, every division the printed function reaches (`… / ms_diff`, and through `Uptime(...)` the divisions by
    the rounded frequency) has a non-zero divisor.  (`max_timestamp_scale / timestamp_grace` sits inside an `and` chain: the companion
    checks it under the conjuncts before it.) -/
theorem gen_fingerprintUptime_safe (o : UpOpts) (hD : o.Dom) (frag : Bool) (t a b : Nat) (now rcv : Int) :
    Gen.fingerprintUptime_safe o frag t a b now rcv = true := by
  first
  | exact rfl
  | (unfold Gen.fingerprintUptime_safe
     have hw := hD.wait
     have hg := hD.grace
     have fb : ∀ (ts : Nat) (r : Q), Q.le (Q.mk (o.minScaleN : Int) o.minScaleD) r = true → Gen.uptimePostInit_safe ts r = true :=
       fun ts r h => gen_uptimePostInit_safe ts r (trunc_nonneg_of_min o hD r h)
     simp only [isZero_ofInt]
     grind (splits := 60))


theorem any_ne_and_eq {α : Type} (l : List α) (f : α → Int) (g : α → Bool) :
    (List.any l fun x => ((f x != 0) && g x) && (f x == 0)) = false := by
  induction l with
  | nil => rfl
  | cons a t ih =>
    simp only [List.any_cons, ih, Bool.or_false]
    by_cases h : f a = 0 <;> simp [h]

theorem any_ne_and_eq' {α : Type} (l : List α) (f : α → Int) :
    (List.any l fun x => (f x != 0) && (f x == 0)) = false := by
  have := any_ne_and_eq l f (fun _ => true)
  simpa using this

theorem firstHit_const {α β : Type} (l : List α) (p : α → Bool) (b : β) : firstHit l p (fun _ => b) b = b := by
  unfold firstHit
  cases l.find? p <;> rfl

/-- **`calculate_window_multiplier` never divides by zero**: every candidate divisor is tested for truth before `window % div`
    and `window // div` (for every packet signature, `syn_mss = 12` included, where the candidate `syn_mss - 12` is 0) -/
theorem gen_windowMult_safe (p : WIn) : Gen.windowMult_safe p = true := by
  first
  | exact rfl
  | (unfold Gen.windowMult_safe
     simp only [any_ne_and_eq, any_ne_and_eq', Bool.false_eq_true, if_false, firstHit_const]
     first
     | rfl
     | (simp only [apply_ite (Sum.elim _ _), Sum.elim_inr, Sum.elim_inl, ite_self]; done)
     | grind (splits := 40))
  | (-- the search written as a general loop: safe for every list, since a zero divisor is skipped before it is used
     have hl : ∀ (dv l : List (Int × Bool)), Gen.windowMult_safe_loop0 p dv l = true := by
       intro dv l
       induction l with
       | nil => unfold Gen.windowMult_safe_loop0; rfl
       | cons a t ih =>
         unfold Gen.windowMult_safe_loop0
         simp only [ih]
         grind (splits := 40)
     unfold Gen.windowMult_safe
     simp only [hl]
     first
     | rfl
     | (simp only [apply_ite (Sum.elim _ _), Sum.elim_inr, Sum.elim_inl, ite_self]; done)
     | grind (splits := 40))

/-- **`tcp_signatures_match` never divides by zero** on a signature whose `%n` window has a non-zero modulus (what
    `_parse_window` guarantees, `parseWindow_range`: 1 … 65535) -/
theorem gen_tcpSignaturesMatch_safe (s : Sig) (p : PSig) (maxDist : Int) (h : s.wtype = WinType.mod → s.wsize ≠ 0) :
    Gen.tcpSignaturesMatch_safe s p maxDist = true := by
  first
  | exact rfl
  | (unfold Gen.tcpSignaturesMatch_safe
     by_cases hm : s.wtype = WinType.mod
     · have := h hm
       have e : ((((s.wsize : Nat) : Int)) == 0) = false := by simp; omega
       simp only [e, Bool.and_false, Bool.false_eq_true, if_false]
       grind (splits := 80)
     · have e : (s.wtype == WinType.mod) = false := by simpa using hm
       simp only [e, Bool.and_false, Bool.false_and, Bool.false_eq_true, if_false]
       grind (splits := 80))


theorem elim_eq_match' {α β : Type} (o : Option α) (e : β) (f : α → β) :
    o.elim e f = (match o with | none => e | some v => f v) := by cases o <;> rfl

/-- **`_impersonate_options` never divides by zero** on a signature whose `mss*n` window has a non-zero multiplier (what
    `_parse_window` guarantees, `parseWindow_range`: 1 … 1000): the only division, `(2**16 - 1) // signature.window.size`, is behind
    the window-type test -/
theorem gen_impOptions_safe (s : Sig) (b : Base) (uptime : Option Int) (c : Choices) (h : s.wtype = WinType.mss → s.wsize ≠ 0) :
    Gen.impOptions_safe s b uptime c = true := by
  first
  | exact rfl
  | (have hl : ∀ (t : Nat) (ks : List Nat) (options : List SOpt) (cs : List (Nat × Nat)),
         Gen.impOptions_safe_loop0 s b uptime c t ks options cs = true := by
       intro t ks
       induction ks with
       | nil => intros; unfold Gen.impOptions_safe_loop0; rfl
       | cons k ks ih =>
         intro options cs
         unfold Gen.impOptions_safe_loop0
         simp only [ih]
         by_cases hm : s.wtype = WinType.mss
         · have := h hm
           have e : ((((s.wsize : Nat) : Int)) == 0) = false := by simp; omega
           simp only [e, Bool.false_eq_true, if_false, elim_eq_match']
           grind (splits := 200) [Sum.elim_inl, Sum.elim_inr]
         · have e : (s.wtype == WinType.mss) = false := by simpa using hm
           simp only [e, Bool.false_eq_true, if_false, elim_eq_match']
           grind (splits := 200) [Sum.elim_inl, Sum.elim_inr]
     unfold Gen.impOptions_safe
     simp only [hl])


/-- **`read_headers` raises no IndexError** on lines none of which is empty: `line[0]` has a byte to read, `headers[-1]` is only
    touched behind `if not headers: raise` -/
theorem gen_readHeaders_safe (lines : List Bytes) (hne : ∀ l ∈ lines, l ≠ []) : Gen.readHeaders_safe lines = true := by
  first
  | exact rfl
  | (have hl : ∀ (ls : List Bytes) (acc : List Hdr), (∀ l ∈ ls, l ≠ []) → Gen.readHeaders_safe_loop0 lines ls acc = true := by
       intro ls
       induction ls with
       | nil => intros; unfold Gen.readHeaders_safe_loop0; rfl
       | cons line rest ih =>
         intro acc h
         have hrest : ∀ l ∈ rest, l ≠ [] := fun l hl => h l (List.mem_cons_of_mem _ hl)
         have hline : line ≠ [] := h line (List.mem_cons_self)
         unfold Gen.readHeaders_safe_loop0
         have hlen : decide (List.length line ≤ 0) = false := by
           cases line with
           | nil => exact absurd rfl hline
           | cons c t => simp
         have ih' : ∀ acc, Gen.readHeaders_safe_loop0 lines rest acc = true := fun acc => ih acc hrest
         simp only [hlen, Bool.false_eq_true, if_false, ih']
         grind (splits := 60) [Sum.elim_inl, Sum.elim_inr]
     unfold Gen.readHeaders_safe
     exact hl lines [] hne)

/-- **`read_payload` raises no IndexError, for EVERY byte string**: `lines[0]` is behind `if not lines`, and the lines h11 extracts
    are never empty (`extractLines_nonempty`), so `read_headers` is safe on them (C04 for the HTTP reader, at source level) -/
theorem gen_readPayload_safe (data : Bytes) : Gen.readPayload_safe data = true := by
  first
  | exact rfl
  | (unfold Gen.readPayload_safe
     simp only []
     cases he : extractLines data with
     | none => rfl
     | some ls =>
       cases ls with
       | nil => rfl
       | cons first rest =>
         have hne := extractLines_nonempty data _ he
         have hrest : ∀ l ∈ rest, l ≠ [] := fun l hl => hne l (List.mem_cons_of_mem _ hl)
         have hs := gen_readHeaders_safe rest hrest
         simp only [Option.elim_some, List.isEmpty_cons, Bool.false_eq_true, if_false, List.map_id', List.length_cons, List.drop_one, List.tail_cons, hs]
         simp only [Bool.not_true, Bool.false_eq_true, if_false, elim_eq_match', Nat.le_zero_eq, Nat.add_one_ne_zero, decide_false]
         first
         | rfl
         | grind (splits := 40))

/-- **`_parse_file` raises no IndexError, for EVERY sequence of lines**: `line[0]` is only read behind `if not line` (C10, at source
    level; the model keeps the IndexError as an outcome and `parseLines_closed` shows it unreachable - this is the same fact about
    the printed function) -/
theorem gen_parseFileLines_safe (ls : List (List Char)) : Gen.parseFileLines_safe ls = true := by
  first
  | exact rfl
  | (have hl : ∀ (l : List (List Char)) (db : Db) (dir : Option Dir) (label : Option DbLabel) (n : Nat) (rc : Option RecKind) (state : PState),
         Gen.parseFileLines_safe_loop0 ls l db dir label n rc state = true := by
       intro l
       induction l with
       | nil => intros; unfold Gen.parseFileLines_safe_loop0; rfl
       | cons x xs ih =>
         intros
         unfold Gen.parseFileLines_safe_loop0
         simp only [ih, elim_eq_match']
         grind (splits := 400) [Sum.elim_inl, Sum.elim_inr]
     unfold Gen.parseFileLines_safe
     simp only [hl])

end P0f
