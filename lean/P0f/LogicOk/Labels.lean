import P0f.LogicOk.SigParse
import P0f.Model.DbParse
import P0f.Generated.Logic.ParseMtuSig
import P0f.Generated.Logic.ParseLabel
import P0f.Generated.Logic.DumpLabel
import P0f.Generated.Logic.ParseSection
/-
  `MTUSignature.parse`, `Label.parse`, `Label.dump`, `_parse_section` (C09, C10, C15) against the source text.
-/
namespace P0f
open P0f.Py

/-- `MTUSignature.parse` as printed from the source = the model's (1 … 65535, no wildcard) -/
theorem gen_parseMtuSig (raw : List Char) : Gen.parseMtuSig raw = (parseMtuSig raw).map fun (n : Nat) => (n : Int) := by
  first
  | exact rfl
  | (unfold Gen.parseMtuSig parseMtuSig parseNumberN
     simp only [Bool.false_and, Bool.false_eq_true, if_false, parseNumber_inlined, elim_none_some]
     cases hp : parseNumber raw 1 65535 with
     | none => rfl
     | some v =>
       have hr := parseNumber_range _ _ _ _ hp
       have hv : ((v.toNat : Nat) : Int) = v := Int.toNat_of_nonneg (by omega)
       simp [hv])

theorem list4 {α : Type} (l : List α) (d : α) (h : l.length = 4) : l = [l.getD 0 d, l.getD 1 d, l.getD 2 d, l.getD 3 d] := by
  match l, h with
  | [a, b, c, e], _ => rfl

/-- `Label.parse` as printed from the source = the model's (C15) -/
theorem gen_parseLabel (raw : List Char) : Gen.parseLabel raw = parseLabel raw := by
  first
  | exact rfl
  | (unfold Gen.parseLabel parseLabel
     have h4 := list4 (splitParts ':' 4 raw) [] (splitParts_len ':' 4 raw)
     simp only []
     generalize (splitParts ':' 4 raw).getD 0 [] = a0 at *
     generalize (splitParts ':' 4 raw).getD 1 [] = a1 at *
     generalize (splitParts ':' 4 raw).getD 2 [] = a2 at *
     generalize (splitParts ':' 4 raw).getD 3 [] = a3 at *
     rw [h4]
     have es : ("s".toList) = ['s'] := rfl
     have eg : ("g".toList) = ['g'] := rfl
     simp only [es, eg, elim_none_some]
     by_cases h1 : (a0 == ['s']) = true
     · simp [h1]
     · by_cases h2 : (a0 == ['g']) = true
       · simp [h1, h2]
       · simp [h1, h2])

/-- `Label.dump` as printed from the source = the model's (C15: dumping a label gives back the text written in the file) -/
theorem gen_dumpLabel (l : LabelM) : Gen.dumpLabel l = l.dump := by
  first
  | exact rfl
  | (unfold Gen.dumpLabel LabelM.dump
     cases l.generic <;> rfl)

/-- `_parse_section` as printed from the source = the model's: which section headers are accepted, with which record kind and
    direction (C09, C10) -/
theorem gen_parseSection (line : List Char) : Gen.parseSection line = (parseSection line).map fun s => (s.kind, s.dir) := by
  first
  | exact rfl
  | (unfold Gen.parseSection parseSection
     have e1 : ("]".toList) = [']'] := rfl
     have hd : List.take (List.length (List.drop 1 line) - 1) (List.drop 1 line) = (line.drop 1).dropLast := by
       rw [List.dropLast_eq_take]
     simp only [e1, hd, elim_none_some]
     have em : ("mtu".toList) = ['m', 't', 'u'] := rfl
     have et : ("tcp".toList) = ['t', 'c', 'p'] := rfl
     have eh : ("http".toList) = ['h', 't', 't', 'p'] := rfl
     have eq_ : ("request".toList) = ['r', 'e', 'q', 'u', 'e', 's', 't'] := rfl
     have er : ("response".toList) = ['r', 'e', 's', 'p', 'o', 'n', 's', 'e'] := rfl
     simp only [em, et, eh, eq_, er]
     by_cases hend : endsWith line [']'] = true
     · simp only [hend, Bool.not_true, Bool.false_eq_true, if_false]
       generalize (partition ':' (List.drop 1 line).dropLast).1 = ty
       generalize (partition ':' (List.drop 1 line).dropLast).2.2 = dir
       by_cases hm : ty = ['m', 't', 'u']
       · subst hm
         by_cases hde : dir.isEmpty = true <;> simp [hde, Section.kind, Section.dir]
       · have hm' : (ty == ['m', 't', 'u']) = false := by simpa using hm
         by_cases ht : ty = ['t', 'c', 'p']
         · subst ht
           by_cases hq : dir = ['r', 'e', 'q', 'u', 'e', 's', 't']
           · subst hq; simp [Section.kind, Section.dir]
           · have hq' : (dir == ['r', 'e', 'q', 'u', 'e', 's', 't']) = false := by simpa using hq
             by_cases hr : dir = ['r', 'e', 's', 'p', 'o', 'n', 's', 'e']
             · subst hr; simp [Section.kind, Section.dir]
             · have hr' : (dir == ['r', 'e', 's', 'p', 'o', 'n', 's', 'e']) = false := by simpa using hr
               simp [hq', hr']
         · have ht' : (ty == ['t', 'c', 'p']) = false := by simpa using ht
           by_cases hh : ty = ['h', 't', 't', 'p']
           · subst hh
             by_cases hq : dir = ['r', 'e', 'q', 'u', 'e', 's', 't']
             · subst hq; simp [Section.kind, Section.dir]
             · have hq' : (dir == ['r', 'e', 'q', 'u', 'e', 's', 't']) = false := by simpa using hq
               by_cases hr : dir = ['r', 'e', 's', 'p', 'o', 'n', 's', 'e']
               · subst hr; simp [Section.kind, Section.dir]
               · have hr' : (dir == ['r', 'e', 's', 'p', 'o', 'n', 's', 'e']) = false := by simpa using hr
                 simp [hq', hr']
           · have hh' : (ty == ['h', 't', 't', 'p']) = false := by simpa using hh
             simp [hm', ht', hh']
     · simp [hend])

end P0f
