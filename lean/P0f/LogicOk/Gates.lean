import P0f.LogicOk.Prelude
import P0f.Model.Mtu
import P0f.Generated.Logic.ShouldFingerprint
import P0f.Generated.Logic.ValidTcp
import P0f.Generated.Logic.ValidUptime
import P0f.Generated.Logic.ValidMtu
namespace P0f

/-- `Packet.should_fingerprint` -/
theorem gen_shouldFingerprint (f : Bool) (t : Nat) : Gen.shouldFingerprint f t = shouldFingerprint f t := by
  first
  | exact rfl
  | (unfold Gen.shouldFingerprint shouldFingerprint hasAll F_SYN F_FIN F_RST
     try gen_finish)

/-- `valid_for_tcp_fingerprint` -/
theorem gen_validTcp (f : Bool) (t : Nat) : Gen.validTcp f t = validTcp f t := by
  first
  | exact rfl
  | (unfold Gen.validTcp validTcp F_SYN F_ACK
     simp only [gen_shouldFingerprint]
     try gen_finish)

/-- `valid_for_uptime_fingerprint` -/
theorem gen_validUptime (f : Bool) (t : Nat) : Gen.validUptime f t = validUptime f t := by
  first
  | exact rfl
  | (unfold Gen.validUptime validUptime F_SYN F_ACK
     simp only [gen_shouldFingerprint]
     try gen_finish)

/-- `valid_for_mtu_fingerprint` -/
theorem gen_validMtu (f : Bool) (t m : Nat) : Gen.validMtu f t m = validMtu f t m := by
  first
  | exact rfl
  | (unfold Gen.validMtu validMtu F_SYN F_ACK
     simp only [gen_shouldFingerprint]
     try gen_finish)

end P0f
