import P0f.LogicOk.Prelude
import P0f.LogicOk.Gates
import P0f.LogicOk.FindTcpMatch
import P0f.Model.Api
import P0f.Generated.Logic.PktSigFromPacket
import P0f.Generated.Logic.FingerprintTcp
/-
  The glue of `fingerprint_tcp` against the source text: `TCPPacketSignature.from_packet` (which header fields and option
  values go into the packet signature, the peer MSS only on a SYN+ACK) and `fingerprint_tcp` itself (gate, direction by
  packet type, search, distance) - composed of the printed `find_tcp_match`, `tcp_signatures_match`, window multiplier and
  distance through their bridging theorems.
-/
namespace P0f

/-- `TCPPacketSignature.from_packet` as printed from the source = the model's (C03, C17: `syn_mss` only on SYN+ACK) -/
theorem gen_pktSigFromPacket (pk : PktL) (synMss : Nat) : Gen.pktSigFromPacket pk synMss = pktSigOfPkt pk synMss := by
  first
  | exact rfl
  | (unfold Gen.pktSigFromPacket pktSigOfPkt F_SYN F_ACK
     first
     | rfl
     | (congr 1 <;> gen_finish))

/-- **`fingerprint_tcp` as printed from the source** = gate, then the model's `fingerprintTcp` on the direction the
    packet type selects (C02 direction separation, C01 / C17 through the composed pieces) -/
theorem gen_fingerprintTcp (db : TcpDb) (pk : PktL) (synMss : Nat) (d : Int) :
    Gen.fingerprintTcp db pk synMss d =
      if !validTcp pk.ip.isFragment pk.tcp.type then none
      else some (fingerprintTcp db (pktSigOfPkt pk synMss) (pk.tcp.type == F_SYN) d) := by
  first
  | exact rfl
  | (unfold Gen.fingerprintTcp fingerprintTcp F_SYN
     simp only [gen_validTcp, gen_pktSigFromPacket, gen_findTcpMatch, gen_distance]
     cases hv : validTcp pk.ip.isFragment pk.tcp.type
     · simp
     · cases ht : (pk.tcp.type == 2) <;> simp [pktSigOfPkt])

end P0f
