import P0f.LogicOk.Impersonate
import P0f.LogicOk.ImpOptions
import P0f.Props.C05
import P0f.Props.C05Bytes
/-
  C05 / C14 with the impersonator's logic read from the source: `impersonate(...)` after the signature has been obtained, assembled
  from the PRINTED `_impersonate_ip`, the printed seq / ack / flags / urgptr part of `_impersonate_tcp`, the printed
  `_impersonate_options` and the printed `_impersonate_window`.  Hand-written here (binding glue): the IPv4 / IPv6 compatibility test
  of `impersonate`, the order of the calls, the fields copied unchanged (addresses, ports, fragment offset) and `_impersonate_payload`
  (the model's `impPayload`: Scapy payload objects are not printed).
-/
namespace P0f

def Gen.impTcp (s : Sig) (b : Base) (hops : Int) (mtu : Nat) (uptime : Option Int) (c : Choices) : Except ImpErr OutPkt :=
  if s.ipVer.isSome && s.ipVer != some b.ipVer then .error .valueError
  else
    let ip := Gen.impIp s b hops c
    let hdr := Gen.impTcpHeader s b c
    let opts := Gen.impOptions s b uptime c
    match Gen.impWindow s b opts mtu c with
    | none => .error .valueError
    | some win =>
      .ok { ipVer := b.ipVer, src := b.src, dst := b.dst, ttl := ip.1, tos := ip.2.1, ipId := ip.2.2.1, ipFlags := ip.2.2.2.1,
            ipFrag := if b.ipVer == 6 then 0 else b.ipFrag, ipOptLen := ip.2.2.2.2.1, fl := ip.2.2.2.2.2,
            sport := b.sport, dport := b.dport, seq := hdr.1, ack := hdr.2.1, flags := hdr.2.2.1, urp := hdr.2.2.2,
            window := win, opts := opts, payload := impPayload s b c }

/-- the packet assembled from the printed functions = the model's `impTcp`, for every base packet whose flag fields have the
    width of the wire fields -/
theorem gen_impTcp (s : Sig) (b : Base) (hops : Int) (mtu : Nat) (uptime : Option Int) (c : Choices)
    (hf : b.flags < 512) (hi : b.ipFlags < 8) :
    Gen.impTcp s b hops mtu uptime c = impTcp s b hops mtu uptime c := by
  unfold Gen.impTcp impTcp
  rw [gen_impIp s b hops c hi, gen_impTcpHeader s b c hf, gen_impOptions s b uptime c hf]
  simp only [gen_impWindow]
  unfold impIpFields
  by_cases hv : (s.ipVer.isSome && s.ipVer != some b.ipVer) = true
  · simp only [hv, if_true]
  · simp only [hv, Bool.false_eq_true, if_false]
    cases hw : impWindow s b (impOptions s b uptime c) mtu c with
    | error e =>
      have : e = ImpErr.valueError := by
        unfold impWindow at hw
        split at hw <;> (try cases hw) <;> (try (split at hw <;> cases hw)) <;> rfl
      subst this
      rfl
    | ok win => rfl

/-- **C05 against the source text**: for every supported signature, admissible base packet, `extra_hops` below the signature TTL
    and the tolerance, and every outcome of the random draws inside the ranges drawn from, the packet assembled from the printed
    impersonator functions is returned without raising, its extracted signature matches the requested signature EXACTLY, at TTL
    distance `extra_hops` -/
theorem source_imp_exact (s : Sig) (b : Base) (hops d : Int) (mtu : Nat) (up : Option Int) (c : Choices)
    (hadm : Admissible b) (hsup : Supported s b) (hc : choicesOk s b up c = true)
    (hh0 : 0 ≤ hops) (hh1 : hops < s.ttl) (hh2 : hops ≤ d) :
    ∃ o, Gen.impTcp s b hops mtu up c = .ok o ∧ tcpMatchPkt s (extractOut o) d = some .exact ∧
      (s.ttl : Int) - ((extractOut o).ttl : Int) = hops := by
  rw [gen_impTcp s b hops mtu up c hadm.flagsLt hadm.ipFlagsLt]
  exact imp_exact_partial s b hops d mtu up c hadm hsup hc hh0 hh1 hh2

/-- the same down to the bytes Scapy serialises (C05, byte level) -/
theorem source_imp_exact_bytes (s : Sig) (b : Base) (hops d : Int) (mtu : Nat) (up : Option Int) (c : Choices)
    (hadm : Admissible b) (hsup : Supported s b) (hbf : b.Fits) (hc : choicesOk s b up c = true)
    (hh0 : 0 ≤ hops) (hh1 : hops < s.ttl) (hh2 : hops ≤ d) :
    ∃ o p, Gen.impTcp s b hops mtu up c = .ok o ∧
      (if b.ipVer = 4 then decodeV4 o.toBytes else decodeV6 o.toBytes) = some p ∧
      tcpMatchPkt s (pktSigOfPkt p 0) d = some .exact ∧
      (s.ttl : Int) - ((pktSigOfPkt p 0).ttl : Int) = hops := by
  rw [gen_impTcp s b hops mtu up c hadm.flagsLt hadm.ipFlagsLt]
  exact imp_exact_bytes s b hops d mtu up c hadm hsup hbf hc hh0 hh1 hh2

end P0f
