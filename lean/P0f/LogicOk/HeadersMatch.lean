import P0f.LogicOk.Prelude
import P0f.Model.Http
import P0f.Generated.Logic.HeadersMatch
/-
  `headers_match` (C06) against the source text: the `for` loop over the signature headers with its inner `while`
  (index walk through the packet headers), `continue` and early returns.  Two stages as for the option walk:
  `P0f.Ref.headersMatch` is a frozen copy of what the translator printed from the pinned source, `ref_headersMatch`
  proves it equal to the model's `headersMatch` (incl. that the fuel `len(packet_headers) + 1` suffices), and
  `gen_headersMatch` compares the definition printed from the working tree with the frozen copy.
-/
set_option linter.unusedVariables false
namespace P0f.Ref
open P0f P0f.Py

def headersMatch_while0 (sh : List SigHdr) (ph : List Hdr) (header : SigHdr) (original_index : Nat) : Nat → Nat → Option (Nat)
  | 0, i => none
  | fuel + 1, i =>
    if ((decide (i < (List.length ph))) && ((lower header.name) != (lower (List.getD ph i default).name))) then
      let i : Nat := (i + 1)
      (headersMatch_while0 sh ph header original_index fuel i)
    else
      (some (i))
def headersMatch_loop0 (sh : List SigHdr) (ph : List Hdr) : List SigHdr → Nat → Bool
  | [], i =>
    true
  | header :: xs, i =>
    let original_index : Nat := i
    let w2_3 : Nat := Option.getD (headersMatch_while0 sh ph header original_index (ph.length + 1) i) (i)
    let i := w2_3
    if (i == (List.length ph)) then
      if (!header.optional) then
        false
      else
        if (List.any ph (fun packet_header => ((lower header.name) == (lower packet_header.name)))) then
          false
        else
          let i : Nat := original_index
          (headersMatch_loop0 sh ph xs i)
    else
      if ((Option.isSome header.value) && (!(Option.elim header.value false (fun x => (let y := (List.getD ph i default).value; isInfix x y))))) then
        false
      else
        let i : Nat := (i + 1)
        (headersMatch_loop0 sh ph xs i)
def headersMatch (sh : List SigHdr) (ph : List Hdr) : Bool :=
  let i : Nat := 0
  headersMatch_loop0 sh ph sh i


end P0f.Ref

namespace P0f
open P0f.Py

theorem hm_while_spec (sh : List SigHdr) (ph : List Hdr) (h : SigHdr) (oi : Nat) (fuel i : Nat)
    (hi : i ≤ ph.length) (hf : ph.length - i < fuel) :
    Ref.headersMatch_while0 sh ph h oi fuel i = some (advance ph h.name i (ph.length - i)) := by
  induction fuel generalizing i with
  | zero => omega
  | succ f ih =>
    unfold Ref.headersMatch_while0
    by_cases hlt : i < ph.length
    · have hsub : ph.length - i = (ph.length - (i + 1)) + 1 := by omega
      rw [hsub, advance]
      have hget : ph[i]? = some ph[i] := List.getElem?_eq_getElem hlt
      have hgd : List.getD ph i default = ph[i] := by simp [List.getD, hget]
      rw [hget, hgd]
      by_cases hne : (lower h.name != lower ph[i].name) = true
      · have c : (decide (i < ph.length) && (lower h.name != lower ph[i].name)) = true := by simp [hlt, hne]
        rw [if_pos c]
        simp only [hne, if_true]
        exact ih (i + 1) (by omega) (by omega)
      · have c : ¬ (decide (i < ph.length) && (lower h.name != lower ph[i].name)) = true := by simp [hne]
        rw [if_neg c]
        simp only [hne, if_false]
        rfl
    · have hi' : i = ph.length := by omega
      have c : ¬ (decide (i < ph.length) && (lower h.name != lower (List.getD ph i default).name)) = true := by simp [hlt]
      rw [if_neg c]
      subst hi'
      simp [advance]

theorem advance_le (ph : List Hdr) (name : Bytes) (i fuel : Nat) (hi : i ≤ ph.length) : advance ph name i fuel ≤ ph.length := by
  induction fuel generalizing i with
  | zero => simpa [advance]
  | succ f ih =>
    unfold advance
    cases hg : ph[i]? with
    | none => simpa
    | some x =>
      have hlt : i < ph.length := by
        apply Classical.byContradiction; intro hc
        have : ph[i]? = none := List.getElem?_eq_none (by omega)
        simp [this] at hg
      simp only
      split
      · exact ih (i + 1) (by omega)
      · exact hi


theorem ref_headersMatchLoop (sh : List SigHdr) (ph : List Hdr) (l : List SigHdr) (i : Nat) (hi : i ≤ ph.length) :
    Ref.headersMatch_loop0 sh ph l i = headersMatchGo ph l i := by
  induction l generalizing i with
  | nil => unfold Ref.headersMatch_loop0 headersMatchGo; rfl
  | cons h hs ih =>
    unfold Ref.headersMatch_loop0 headersMatchGo
    simp only [hm_while_spec sh ph h i (ph.length + 1) i hi (by omega), Option.getD_some]
    generalize hj : advance ph h.name i (ph.length - i) = j
    have hjle : j ≤ ph.length := hj ▸ advance_le ph h.name i _ hi
    by_cases hend : j = ph.length
    · have hnone : ph[j]? = none := List.getElem?_eq_none (by omega)
      have c : (j == ph.length) = true := by simpa using hend
      rw [if_pos c, hnone]
      simp only
      cases ho : h.optional
      · simp
      · simp only [Bool.not_true, Bool.false_eq_true, if_false]
        by_cases ha : (ph.any fun x => lower h.name == lower x.name) = true
        · simp [ha]
        · simp only [ha, if_false]
          exact ih i hi
    · have hlt : j < ph.length := by omega
      have hget : ph[j]? = some ph[j] := List.getElem?_eq_getElem hlt
      have hgd : List.getD ph j default = ph[j] := by simp [List.getD, hget]
      have c : ¬ (j == ph.length) = true := by simpa using hend
      rw [if_neg c, hget, hgd]
      simp only
      cases hv : h.value with
      | none => simp only [Option.isSome_none, Bool.false_and, Bool.false_eq_true, if_false]; exact ih (j + 1) (by omega)
      | some v =>
        simp only [Option.isSome_some, Bool.true_and, Option.elim_some]
        by_cases hin : isInfix v ph[j].value = true
        · simp only [hin, Bool.not_true, Bool.false_eq_true, if_false, if_true]; exact ih (j + 1) (by omega)
        · simp [hin]

/-- the frozen transcription of `headers_match` = the model's, for all header lists -/
theorem ref_headersMatch (sh : List SigHdr) (ph : List Hdr) : Ref.headersMatch sh ph = headersMatch sh ph := by
  unfold Ref.headersMatch headersMatch
  exact ref_headersMatchLoop sh ph sh 0 (by omega)

/-- **`headers_match` as printed from the working tree = the model's** (C06) -/
theorem gen_headersMatch (sh : List SigHdr) (ph : List Hdr) : Gen.headersMatch sh ph = headersMatch sh ph := by
  first
  | exact rfl
  | (have h1 : ∀ (fuel : Nat) (h : SigHdr) (oi i : Nat),
         Gen.headersMatch_while0 sh ph h oi fuel i = Ref.headersMatch_while0 sh ph h oi fuel i := by
       intro fuel
       induction fuel with
       | zero => intros; rfl
       | succ f ih =>
         intros
         unfold Gen.headersMatch_while0 Ref.headersMatch_while0
         first
         | (simp only [ih]; done)
         | (simp only [ih]; grind)
     have h0 : ∀ (l : List SigHdr) (i : Nat), Gen.headersMatch_loop0 sh ph l i = Ref.headersMatch_loop0 sh ph l i := by
       intro l
       induction l with
       | nil => intros; unfold Gen.headersMatch_loop0 Ref.headersMatch_loop0; first | rfl | grind
       | cons h hs ih =>
         intros
         unfold Gen.headersMatch_loop0 Ref.headersMatch_loop0
         first
         | (simp only [ih, h1]; done)
         | (simp only [ih, h1]; grind (splits := 40))
     have : Gen.headersMatch sh ph = Ref.headersMatch sh ph := by
       unfold Gen.headersMatch Ref.headersMatch
       first
       | (simp only [h0]; done)
       | (simp only [h0]; grind)
     rw [this]; exact ref_headersMatch sh ph)

end P0f
