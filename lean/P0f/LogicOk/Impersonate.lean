import P0f.LogicOk.Prelude
import P0f.Lemmas.Match
import P0f.Model.ImpFields
import P0f.Generated.Logic.ImpersonateIp
import P0f.Generated.Logic.ImpersonateTcpHeader
import P0f.Generated.Logic.ImpersonateWindow
/-
  The impersonator's header logic (C05, C14) against the source text: `_impersonate_ip`, the sequence / acknowledgement /
  flag / urgent-pointer part of `_impersonate_tcp`, `_impersonate_window`.  The value each `random` call returns is a field
  of the model's `Choices` (bound by the position of the call in the source); flag values are bounded by their field
  widths (3 IPv4 flag bits, 9 TCP flag bits), as Scapy's fields are.
-/
namespace P0f

theorem subsetOf_single (q : Quirk) (s : QSet) : QSet.subsetOf (QSet.ofList [q]) s = s q := by
  unfold QSet.subsetOf
  cases h : s q
  · have : ¬ ∀ x, ((QSet.ofList [q]).inter s) x = (QSet.ofList [q]) x := by
      intro hx; have := hx q; simp [QSet.inter, QSet.ofList, h] at this
    cases hb : ((QSet.ofList [q]).inter s).beq (QSet.ofList [q])
    · rfl
    · exact absurd ((QSet.beq_iff _ _).mp hb) this
  · apply (QSet.beq_iff _ _).mpr
    intro x
    by_cases hx : x = q
    · subst hx; simp [QSet.inter, QSet.ofList, h]
    · simp [QSet.inter, QSet.ofList, hx]

/-- clearing / setting one flag bit, the way the code spells it, against the model's `clearBit` / `setBit` (for flag
    values within the 9-bit TCP flag field; the IPv4 flag field is narrower) -/
theorem clear_eq (f m : Nat) (hf : f < 512) (hm : m = 1 ∨ m = 2 ∨ m = 4 ∨ m = 8 ∨ m = 16 ∨ m = 32 ∨ m = 64 ∨ m = 128 ∨ m = 256) :
    f ^^^ (f &&& m) = clearBit f m := by
  unfold clearBit bit
  rcases hm with h | h | h | h | h | h | h | h | h <;> subst h <;> revert f <;> decide +kernel

theorem set_eq (f m : Nat) (hf : f < 512) (hm : m = 1 ∨ m = 2 ∨ m = 4 ∨ m = 8 ∨ m = 16 ∨ m = 32 ∨ m = 64 ∨ m = 128 ∨ m = 256) :
    f ||| m = setBit f m := by
  unfold setBit bit
  rcases hm with h | h | h | h | h | h | h | h | h <;> subst h <;> revert f <;> decide +kernel


/-- `_impersonate_window` as printed from the source = the model's (`none` = ValueError) -/
theorem gen_impWindow (s : Sig) (b : Base) (opts : List SOpt) (mtu : Nat) (c : Choices) :
    Gen.impWindow s b opts mtu c = (impWindow s b opts mtu c).toOption := by
  first
  | exact rfl
  | (unfold Gen.impWindow impWindow
     cases s.wtype <;> simp [Except.toOption] <;> (cases lastMss opts <;> simp [Except.toOption]))

/-- the flag computation of `_impersonate_tcp`, as the code spells it, over the five quirk bits that matter -/
def codeTcpFlags (nzAck zeroAck nzUrg urg push : Bool) (f : Nat) : Nat :=
  let f1 := if nzAck then f ^^^ (f &&& 16) else if zeroAck then f ||| 16 else f
  let f2 := if nzUrg then f1 ^^^ (f1 &&& 32) else if urg then f1 ||| 32 else f1
  let f3 := f2 ^^^ (f2 &&& (64 ||| 128 ||| 256))
  if push then f3 ||| 8 else f3 ^^^ (f3 &&& 8)

theorem codeTcpFlags_eq : ∀ (a z u g p : Bool) (f : Nat), f < 512 → codeTcpFlags a z u g p f = impFlagsB a z u g p f := by
  unfold codeTcpFlags impFlagsB setBit clearBit bit F_ACK F_URG F_ECE F_CWR F_NS F_PSH
  decide +kernel

/-- the sequence / acknowledgement / flags / urgent-pointer part of `_impersonate_tcp` as printed from the source =
    the model's (C14: identity and SYN nature kept, C05: header quirks) -/
theorem gen_impTcpHeader (s : Sig) (b : Base) (c : Choices) (hf : b.flags < 512) :
    Gen.impTcpHeader s b c = (impSeq s b c, impAck s b c, impFlags s b.flags, impUrp s b c) := by
  first
  | exact rfl
  | (unfold Gen.impTcpHeader impSeq impAck impUrp impFlags
     rw [← codeTcpFlags_eq _ _ _ _ _ _ hf]
     unfold codeTcpFlags
     simp only [subsetOf_single]
     generalize s.quirks .zeroSeq = q1
     generalize s.quirks .nzAck = q2
     generalize s.quirks .zeroAck = q3
     generalize s.quirks .nzUrg = q4
     generalize s.quirks .urg = q5
     generalize s.quirks .push = q6
     simp only [Prod.mk.injEq]
     refine ⟨?_, ?_, ?_, ?_⟩ <;> grind)
  | (-- another spelling of the flag arithmetic: the 9-bit flag field and the five quirk bits are finite, the flag component is
     -- decided by an exhaustive kernel check
     unfold Gen.impTcpHeader impSeq impAck impUrp impFlags
     simp only [subsetOf_single]
     generalize s.quirks .zeroSeq = q1
     generalize s.quirks .nzAck = q2
     generalize s.quirks .zeroAck = q3
     generalize s.quirks .nzUrg = q4
     generalize s.quirks .urg = q5
     generalize s.quirks .push = q6
     generalize b.flags = f at hf ⊢
     simp only [Prod.mk.injEq]
     refine ⟨?_, ?_, ?_, ?_⟩
     · grind
     · grind
     · revert q2 q3 q4 q5 q6 f
       unfold impFlagsB setBit clearBit bit F_ACK F_URG F_ECE F_CWR F_NS F_PSH
       decide +kernel
     · grind)


def codeIpFlags (df mbz : Bool) (f : Nat) : Nat :=
  let f1 := if df then f ||| 2 else f ^^^ (f &&& 2)
  if mbz then f1 ||| 4 else f1 ^^^ (f1 &&& 4)

theorem codeIpFlags_eq : ∀ (df mbz : Bool) (f : Nat), f < 8 → codeIpFlags df mbz f = impIpFlagsB df mbz f := by
  unfold codeIpFlags impIpFlagsB setBit clearBit bit
  decide +kernel

/-- `_impersonate_ip` as printed from the source = the model's: TTL / hop limit with the extra hops, ECN code point,
    IPv4 identification and flag bits, number of IP options, IPv6 flow label -/
theorem gen_impIp (s : Sig) (b : Base) (hops : Int) (c : Choices) (hf : b.ipFlags < 8) :
    Gen.impIp s b hops c = impIpFields s b hops c := by
  first
  | exact rfl
  | (unfold Gen.impIp impIpFields impIpId impIpFlags
     rw [← codeIpFlags_eq _ _ _ hf]
     unfold codeIpFlags
     simp only [subsetOf_single]
     generalize s.quirks .ecn = q1
     generalize s.quirks .flow = q2
     generalize s.quirks .df = q3
     generalize s.quirks .nzId = q4
     generalize s.quirks .zeroId = q5
     generalize s.quirks .nzMbz = q6
     by_cases h6 : b.ipVer = 6
     · simp [h6]
     · have h6' : (b.ipVer == 6) = false := by simpa using h6
       simp only [h6', Bool.false_eq_true, if_false, Prod.mk.injEq]
       simp only [true_and, and_true]
       refine ⟨?_, ?_⟩ <;> grind)
  | (-- the source spells the flag arithmetic differently: the 3-bit flag field and the two quirk bits are finite, so the flag
     -- component is decided by an exhaustive kernel check instead of by its shape
     unfold Gen.impIp impIpFields impIpId impIpFlags
     simp only [subsetOf_single]
     generalize s.quirks .ecn = q1
     generalize s.quirks .flow = q2
     generalize s.quirks .df = q3
     generalize s.quirks .nzId = q4
     generalize s.quirks .zeroId = q5
     generalize s.quirks .nzMbz = q6
     generalize b.ipFlags = f at hf ⊢
     by_cases h6 : b.ipVer = 6
     · simp [h6]
     · have h6' : (b.ipVer == 6) = false := by simpa using h6
       simp only [h6', Bool.false_eq_true, if_false, Prod.mk.injEq]
       simp only [true_and, and_true]
       refine ⟨?_, ?_⟩
       · grind
       · clear h6 h6'
         revert q3 q6 f
         unfold impIpFlagsB setBit clearBit bit
         decide +kernel)

end P0f
