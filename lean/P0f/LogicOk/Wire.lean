import P0f.Props.C03
import P0f.LogicOk.Prelude
import P0f.Model.WireFields
import P0f.Generated.Logic.FromIpv4
import P0f.Generated.Logic.FromIpv6
import P0f.Generated.Logic.TcpFromPacket
import P0f.Generated.Logic.TcpPostInit
namespace P0f

/-! the field-level restatement agrees with the byte-level model the C03 theorems are about -/

theorem ipv4Layer_fields (b : List Nat) (h : 5 ≤ b.getD 0 0 % 16) :
    ipv4Fields (ip4FieldsOf b) =
      ((ipv4Layer b).version, (ipv4Layer b).ttl, (ipv4Layer b).tos, ((ipv4Layer b).olen : Int), ((ipv4Layer b).hdrLen : Int),
        (ipv4Layer b).isFragment, (ipv4Layer b).quirks) := by
  unfold ipv4Fields ip4FieldsOf ipv4Layer
  simp only [Prod.mk.injEq, true_and]
  exact ⟨by omega, trivial⟩

theorem ipv6Layer_fields (b : List Nat) :
    ipv6Fields (ip6FieldsOf b) =
      ((ipv6Layer b).version, (ipv6Layer b).ttl, (ipv6Layer b).tos, ((ipv6Layer b).olen : Int), ((ipv6Layer b).hdrLen : Int),
        (ipv6Layer b).isFragment, (ipv6Layer b).quirks) := by
  rfl

/-! the definitions printed from the working tree's source -/

theorem and3_eq (x : Nat) : x &&& 3 = x % 4 := Nat.and_two_pow_sub_one_eq_mod x 2
theorem shr2_eq (x : Nat) : x >>> 2 = x / 4 := Nat.shiftRight_eq_div_pow x 2

/-! evaluating a quirk set at one quirk -/
theorem qite_apply_at (c : Prop) [Decidable c] (a b : QSet) (q : Quirk) : (if c then a else b) q = if c then a q else b q := by
  split <;> rfl
theorem qunion_apply_at (a b : QSet) (q : Quirk) : (a.union b) q = (a q || b q) := rfl
theorem qempty_apply_at (q : Quirk) : QSet.empty q = false := rfl
theorem qofList1_apply_at (x q : Quirk) : QSet.ofList [x] q = (q == x) := by
  simp [QSet.ofList]
  cases q <;> cases x <;> decide
theorem qIf_apply_at (c : Bool) (x q : Quirk) : qIf c x q = (c && q == x) := by
  cases c <;> simp [qIf, qofList1_apply_at, QSet.empty]

/-- two quirk sets built from guarded unions are equal: evaluate both at each of the 17 quirks, Boolean reasoning -/
macro "qset_pointwise" : tactic => `(tactic|
  (funext q
   cases q <;> simp only [qite_apply_at, qunion_apply_at, qempty_apply_at, qIf_apply_at, qofList1_apply_at] <;> simp <;> grind))

theorem gen_fromIpv4 (ip : Ip4F) : Gen.fromIpv4 ip = ipv4Fields ip := by
  first
  | exact rfl
  | (unfold Gen.fromIpv4 ipv4Fields
     simp only [and3_eq, shr2_eq, Prod.mk.injEq]
     refine ⟨trivial, trivial, trivial, ?_, ?_, ?_, ?_⟩
     · simp
     · simp
     · simp
     · qset_pointwise)

theorem gen_fromIpv6 (ip : Ip6F) : Gen.fromIpv6 ip = ipv6Fields ip := by
  first
  | exact rfl
  | (unfold Gen.fromIpv6 ipv6Fields
     simp only [and3_eq, shr2_eq, Prod.mk.injEq]
     refine ⟨trivial, trivial, trivial, ?_, ?_, ?_, ?_⟩
     · simp
     · simp
     · simp
     · qset_pointwise)

/-- the nine flag bits only: a flag test or mask does not see anything above bit 8 -/
theorem bit_add512 (k r m : Nat) (hm : m = 1 ∨ m = 2 ∨ m = 4 ∨ m = 8 ∨ m = 16 ∨ m = 32 ∨ m = 64 ∨ m = 128 ∨ m = 256) :
    bit (512 * k + r) m = bit r m := by
  unfold bit
  rcases hm with h | h | h | h | h | h | h | h | h <;> subst h <;> congr 1 <;> omega

theorem and_add512 (k r M : Nat) (hM : M < 512) : (512 * k + r) &&& M = r &&& M := by
  have h1 : ((512 * k + r) &&& M) % 2 ^ 9 = ((512 * k + r) % 2 ^ 9) &&& (M % 2 ^ 9) := Nat.and_mod_two_pow
  have h2 : (r &&& M) % 2 ^ 9 = (r % 2 ^ 9) &&& (M % 2 ^ 9) := Nat.and_mod_two_pow
  have e : (512 * k + r) % 2 ^ 9 = r % 2 ^ 9 := by omega
  have l1 : ((512 * k + r) &&& M) < 2 ^ 9 := Nat.lt_of_le_of_lt Nat.and_le_right (by omega)
  have l2 : (r &&& M) < 2 ^ 9 := Nat.lt_of_le_of_lt Nat.and_le_right (by omega)
  rw [Nat.mod_eq_of_lt l1] at h1
  rw [Nat.mod_eq_of_lt l2] at h2
  rw [h1, h2, e]

theorem gen_tcpFromPacket (tcp : TcpF) : Gen.tcpFromPacket tcp = tcpFields tcp := by
  first
  | exact rfl
  | (unfold Gen.tcpFromPacket tcpFields
     simp only [Prod.mk.injEq]
     refine ⟨trivial, ?_, ?_, ?_⟩
     · simp [tcpType, F_SYN, F_ACK, F_FIN, F_RST]
     · simp
     · qset_pointwise)
  | (-- another spelling of the flag tests (masks, merged conditions): the quirk set is a function of the nine flag bits and of three
     -- zero tests, decided exhaustively
     unfold Gen.tcpFromPacket tcpFields
     simp only [Prod.mk.injEq]
     refine ⟨trivial, ?_, ?_, ?_⟩
     · simp [tcpType, F_SYN, F_ACK, F_FIN, F_RST]
     · simp
     · obtain ⟨k, r, hr, hf⟩ : ∃ k r, r < 512 ∧ tcp.flags = 512 * k + r := ⟨tcp.flags / 512, tcp.flags % 512, by omega, by omega⟩
       simp only [hf, bne]
       simp (disch := decide) only [bit_add512, and_add512]
       generalize (tcp.seq == 0) = zs
       generalize (tcp.ack == 0) = za
       generalize (tcp.urgptr == 0) = zu
       funext q
       clear hf
       revert zs za zu
       revert r
       unfold bit
       cases q <;> decide +kernel)

theorem gen_tcpPostInit (t : Nat) (q oq : QSet) : Gen.tcpPostInit t q oq = (tcpType t, q.union oq) := by
  first
  | exact rfl
  | (unfold Gen.tcpPostInit tcpType F_SYN F_ACK F_FIN F_RST
     rfl)

/-- the byte-level TCP layer of the model (C03) restated through the field-level definitions -/
theorem tcpLayer_fields (t : List Nat) :
    (tcpLayer t).type = tcpType (tcpFields (tcpFieldsOf t)).1 ∧
    ((tcpLayer t).hdrLen : Int) = (tcpFields (tcpFieldsOf t)).2.2.1 ∧
    (tcpLayer t).quirks = (tcpFields (tcpFieldsOf t)).2.2.2.union (tcpLayer t).opts.quirks := by
  unfold tcpLayer tcpFields tcpFieldsOf
  exact ⟨rfl, rfl, rfl⟩


/-- **C03 (IPv4 quirks) against the source text**: the quirk set the printed `IP._from_ipv4` derives from the header fields Scapy
    dissects (`ip4FieldsOf b`: the RFC 791 fields of the header bytes `b`) holds each quirk exactly under the documented header-bit
    condition; likewise the fragment flag -/
theorem source_ipv4_quirks (b : List Nat) (h : 5 ≤ b.getD 0 0 % 16) (q : Quirk) :
    (Gen.fromIpv4 (ip4FieldsOf b)).2.2.2.2.2.2 q = specV4Quirk b q := by
  rw [gen_fromIpv4, ipv4Layer_fields b h]
  exact ipv4_quirks b q

theorem source_ipv4_fragment (b : List Nat) (h : 5 ≤ b.getD 0 0 % 16) :
    (Gen.fromIpv4 (ip4FieldsOf b)).2.2.2.2.2.1 = (v4MF b || v4FragOff b != 0) := by
  rw [gen_fromIpv4, ipv4Layer_fields b h]
  exact ipv4_fragment b

/-- **C03 (IPv6 quirks) against the source text** -/
theorem source_ipv6_quirks (b : List Nat) (q : Quirk) :
    (Gen.fromIpv6 (ip6FieldsOf b)).2.2.2.2.2.2 q = specV6Quirk b q := by
  rw [gen_fromIpv6, ipv6Layer_fields b]
  exact ipv6_quirks b q

end P0f
