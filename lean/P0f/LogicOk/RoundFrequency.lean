import P0f.LogicOk.Prelude
import P0f.Model.Uptime
import P0f.Generated.Logic.RoundFrequency
namespace P0f
/-- `round_frequency` as printed from the source = the model's (C13); the code only calls it with a reading inside
    `[min scale, max scale]`, hence `0 ≤` -/
theorem gen_roundFrequency (q : Q) (h : 0 ≤ Q.trunc q) :
    Gen.roundFrequency q = (roundFrequency (Q.trunc q).toNat : Nat) := by
  first
  | exact rfl
  | (unfold Gen.roundFrequency roundFrequency
     generalize Q.trunc q = f at *
     obtain ⟨n, rfl⟩ := Int.eq_ofNat_of_zero_le h
     simp only [Int.toNat_natCast]
     grind)
end P0f
