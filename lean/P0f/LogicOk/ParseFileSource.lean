import P0f.LogicOk.ParseFile
import P0f.Props.C09
import P0f.Props.C10
import P0f.Props.C11
/-
  C09 / C10 / C11 with the parser read from the source: the theorems of Props/C09, C10, C11 restated for `_parse_file` as
  printed from the working tree (`Gen.parseFileLines`), through the bridging theorem `gen_parseFileLines`.
-/
namespace P0f
open P0f.Py

/-- **C09 (main) against the source text**: whenever `_parse_file`, as printed from the working tree, returns a record store,
    it is exactly the store the lines denote (sections iff headers, one record per `sig` line with the most recent label,
    structured signature, raw text and line number, in file order) -/
theorem source_parseFile_records (ls : List (List Char)) (db : Db) (h : Gen.parseFileLines ls = .ok db) : db = specDb ls := by
  rw [gen_parseFileLines] at h; exact parseLines_records ls db h

/-- **C09, len, against the source text** -/
theorem source_parseFile_len (ls : List (List Char)) (db : Db) (h : Gen.parseFileLines ls = .ok db) :
    db.len = (ls.map classify).countP LineKind.isSig := by
  rw [gen_parseFileLines] at h; exact len_eq_sig_lines ls db h

/-- **C10, closure, against the source text**: for EVERY sequence of lines the printed `_parse_file` either returns or fails with
    `ParsingError(line)`, 1 ≤ line ≤ number of lines: no `IndexError` from `line[0]`, no plain `DatabaseError` from
    `database.add` (the section list always exists when a `sig` line is accepted) -/
theorem source_parseFile_closed (ls : List (List Char)) :
    (∃ db, Gen.parseFileLines ls = .ok db) ∨
      (∃ n, Gen.parseFileLines ls = .error (.parsing n) ∧ 1 ≤ n ∧ n ≤ ls.length) := by
  rw [gen_parseFileLines]; exact parseLines_closed ls

/-- **C10, which line, against the source text**: the line number the printed `_parse_file` reports is the first line that
    cannot be accepted in the state the lines before it lead to -/
theorem source_parseFile_error_line (ls : List (List Char)) (n : Nat) (h : Gen.parseFileLines ls = .error (.parsing n)) :
    1 ≤ n ∧ n ≤ ls.length ∧
      ∃ st1, parseGo (ls.take (n - 1)) 1 PSt.init = .ok st1 ∧
        stepLine st1 n (ls[n - 1]?.getD []) = .error (.parsing n) := by
  rw [gen_parseFileLines] at h; exact error_line_correct ls n h

/-- `Database.load` with the printed parser inside: parse into a fresh store, replace the live one only on success -/
def Gen.dbLoad (cur : Db) (f : FileArg) : Except LoadErr Db × Db :=
  match (match f with | .unreadable => (.error .database : Except LoadErr Db) | .text t => Gen.parseFileLines (pyLines t)) with
  | .ok db => (.ok db, db)
  | .error e => (.error e, cur)

theorem gen_dbLoad (cur : Db) (f : FileArg) : Gen.dbLoad cur f = dbLoad cur f := by
  unfold Gen.dbLoad dbLoad parseFile parseText
  cases f with
  | unreadable => rfl
  | text t => simp only [gen_parseFileLines]; rfl

/-- **C11 against the source text**: a load that fails (whatever the printed parser rejects, at whatever line) leaves the live
    store as it was -/
theorem source_failed_load_preserves (db : Db) (f : FileArg) (e : LoadErr) (h : (Gen.dbLoad db f).1 = .error e) :
    (Gen.dbLoad db f).2 = db := by
  rw [gen_dbLoad] at h ⊢
  unfold dbLoad at h ⊢
  cases hp : parseFile f with
  | ok d => simp [hp] at h
  | error e' => rfl

end P0f
