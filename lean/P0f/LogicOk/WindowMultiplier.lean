import P0f.LogicOk.Prelude
import P0f.Generated.Logic.WindowMultiplier
import P0f.Props.C17
namespace P0f
/-- `TCPPacketSignature.calculate_window_multiplier` as printed from the source = the model's (C17, C01) -/
theorem gen_windowMult (p : WIn) : Gen.windowMult p = windowMult p := by
  first
  | exact rfl
  | (unfold Gen.windowMult windowMult
     by_cases h : p.win = 0 ∨ p.mss < 100
     · rw [if_pos h, if_pos]
       · rfl
       · rcases h with h | h <;> simp [h] <;> omega
     · rw [if_neg h, if_neg]
       · simp only []
         rw [firstHit_divides]
         unfold divisors MIN_TCP4 MIN_TCP6
         by_cases h1 : p.ts = 0 <;> by_cases h2 : p.ipVer = 6 <;> by_cases h3 : p.synMss = 0 <;>
           simp [h1, h2, h3, WILDCARD] <;> rfl
       · simp; omega)
  | (-- the search written as a general loop (`continue`, `divmod`): shown equal to the first-hit search first
     have hl : ∀ (dv l : List (Int × Bool)), Gen.windowMult_loop0 p dv l
         = firstHit l (fun x => (x.1 != 0 && !(Int.fmod ((p.win : Nat) : Int) x.1 != 0)))
             (fun x => (Int.fdiv ((p.win : Nat) : Int) x.1, x.2)) ((-1 : Int), false) := by
       intro dv l
       induction l with
       | nil => unfold Gen.windowMult_loop0 firstHit; rfl
       | cons a t ih =>
         unfold Gen.windowMult_loop0
         simp only [ih]
         unfold firstHit
         simp only [List.find?_cons]
         by_cases h1 : a.1 = 0
         · simp [h1]
         · have e1 : (a.1 != 0) = true := by simpa using h1
           by_cases h2 : Int.fmod ((p.win : Nat) : Int) a.1 = 0
           · have e2 : (Int.fmod ((p.win : Nat) : Int) a.1 != 0) = false := by simpa using h2
             simp [e1, e2, h2]
           · have e2 : (Int.fmod ((p.win : Nat) : Int) a.1 != 0) = true := by simpa using h2
             have e3 : (Int.fmod ((p.win : Nat) : Int) a.1 == 0) = false := by simpa using h2
             simp [e1, e2, e3]
     unfold Gen.windowMult windowMult
     by_cases h : p.win = 0 ∨ p.mss < 100
     · rw [if_pos h, if_pos]
       · rfl
       · rcases h with h | h <;> simp [h] <;> omega
     · rw [if_neg h, if_neg]
       · simp only [hl]
         rw [firstHit_divides]
         unfold divisors MIN_TCP4 MIN_TCP6
         by_cases h1 : p.ts = 0 <;> by_cases h2 : p.ipVer = 6 <;> by_cases h3 : p.synMss = 0 <;>
           simp [h1, h2, h3, WILDCARD] <;> rfl
       · simp; omega)

/-- **C17 against the source text**: the printed `calculate_window_multiplier` returns `window / d` with the MTU flag of the FIRST
    documented divisor that divides the window, and WILDCARD when there is no base or no divisor -/
theorem source_windowMult_first (p : WIn) (d : Int) (m : Bool) (hb : HasBase p) (h : FirstDivisor p d m) :
    Gen.windowMult p = ((p.win : Int) / d, m) := by
  rw [gen_windowMult]; exact (windowMult_first p d m hb h).1

theorem source_windowMult_none (p : WIn) (h : ¬ HasBase p ∨ NoDivisor p) : Gen.windowMult p = (WILDCARD, false) := by
  rw [gen_windowMult]; exact windowMult_none p h

end P0f
