import P0f.LogicOk.SigParse
import P0f.LogicOk.Labels
import P0f.Model.Http
import P0f.Generated.Logic.ParseSigHeaders
import P0f.Generated.Logic.ParseHttpSig
/-
  `HTTPSignature.parse` and `_parse_headers` (C09, C06) against the source text.  The regular expression that splits the header
  list is bound to the model's `splitHeaders`.
-/
namespace P0f
open P0f.Py

theorem gen_parseSigHeadersLoop (field : List Char) : ∀ (l : List Bytes) (acc : List SigHdr),
    Gen.parseSigHeaders_loop0 field l acc = acc ++ (l.filter (fun h => !h.isEmpty)).map parseSigHeader := by
  first
  | (intro l acc; exact rfl)
  | (intro l
     induction l with
     | nil => intro acc; unfold Gen.parseSigHeaders_loop0; simp
     | cons h t ih =>
       intro acc
       unfold Gen.parseSigHeaders_loop0
       by_cases he : h.isEmpty = true
       · simp only [he, Bool.not_true, Bool.not_false, if_true, List.filter_cons, Bool.false_eq_true, if_false]
         exact ih acc
       · have q : ("?".toList) = ['?'] := rfl
         simp only [he, Bool.not_false, Bool.not_true, Bool.false_eq_true, if_false, List.filter_cons, if_true, List.map_cons, ih, q,
           List.append_assoc, List.singleton_append, parseSigHeader, List.drop_zero, Nat.sub_zero, take_len_pred]
         congr 2
         cases hv : (partition '=' h).2.2.isEmpty <;> simp [hv])

/-- `_parse_headers` as printed from the source = the model's -/
theorem gen_parseSigHeaders (field : List Char) : Gen.parseSigHeaders field = parseSigHeaders field := by
  first
  | exact rfl
  | (unfold Gen.parseSigHeaders parseSigHeaders
     simp only [gen_parseSigHeadersLoop, List.nil_append])

/-- `HTTPSignature.parse` as printed from the source = the model's, for every text -/
theorem gen_parseHttpSig (raw : List Char) : Gen.parseHttpSig raw = parseHttpSig raw := by
  first
  | exact rfl
  | (unfold Gen.parseHttpSig parseHttpSig
     have h4 := list4 (splitParts ':' 4 raw) [] (splitParts_len ':' 4 raw)
     simp only []
     generalize (splitParts ':' 4 raw).getD 0 [] = a0 at *
     generalize (splitParts ':' 4 raw).getD 1 [] = a1 at *
     generalize (splitParts ':' 4 raw).getD 2 [] = a2 at *
     generalize (splitParts ':' 4 raw).getD 3 [] = a3 at *
     rw [h4]
     have es : ("*".toList) = ['*'] := rfl
     have e0 : ("0".toList) = ['0'] := rfl
     have e1 : ("1".toList) = ['1'] := rfl
     simp only [es, e0, e1, elim_none_some, gen_parseSigHeaders, Bool.true_and, Bool.false_or]
     by_cases hs : (a0 == ['*']) = true
     · by_cases ha : a2.isEmpty = true <;> by_cases hf : a3.isEmpty = true <;> simp [hs, ha, hf, intToOpt]
     · by_cases h0 : (a0 == ['0']) = true
       · by_cases ha : a2.isEmpty = true <;> by_cases hf : a3.isEmpty = true <;> simp [hs, h0, ha, hf, intToOpt]
       · by_cases h1 : (a0 == ['1']) = true
         · by_cases ha : a2.isEmpty = true <;> by_cases hf : a3.isEmpty = true <;> simp [hs, h0, h1, ha, hf, intToOpt]
         · by_cases ha : a2.isEmpty = true <;> by_cases hf : a3.isEmpty = true <;> simp [hs, h0, h1, ha, hf])

end P0f
