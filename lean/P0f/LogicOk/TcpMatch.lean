import P0f.LogicOk.Prelude
import P0f.Model.Match
import P0f.Props.C01
import P0f.Generated.Logic.TcpSignaturesMatch
/-
  Bridging theorem for `tcp_signatures_match` (C01): the definition printed from the working tree's source equals
  the hand-written model `tcpMatch`, which `tcpMatch_eq_spec` proves equal to the declarative matching rules.
-/
namespace P0f

theorem qset_ofList_union (a b : List Quirk) : (QSet.ofList a).union (QSet.ofList b) = QSet.ofList (a ++ b) := by
  funext q; simp [QSet.union, QSet.ofList]

/-! quirk-set identities a rewrite of the matching code is likely to use (both spellings normalise to `a ∩ ¬b`) -/
theorem qxor_inter_left (a b : QSet) : (a.xor b).inter a = a.inter b.compl := by
  funext q; simp only [QSet.xor, QSet.inter, QSet.compl]; cases a q <;> cases b q <;> rfl
theorem qxor_inter_right (a b : QSet) : (a.xor b).inter b = b.inter a.compl := by
  funext q; simp only [QSet.xor, QSet.inter, QSet.compl]; cases a q <;> cases b q <;> rfl
theorem qinter_xor_left (a b : QSet) : a.inter (a.xor b) = a.inter b.compl := by
  funext q; simp only [QSet.xor, QSet.inter, QSet.compl]; cases a q <;> cases b q <;> rfl
theorem qinter_xor_right (a b : QSet) : b.inter (a.xor b) = b.inter a.compl := by
  funext q; simp only [QSet.xor, QSet.inter, QSet.compl]; cases a q <;> cases b q <;> rfl
theorem qcompl_union (a b : QSet) : (a.union b).compl = a.compl.inter b.compl := by
  funext q; simp only [QSet.union, QSet.inter, QSet.compl]; cases a q <;> cases b q <;> rfl

theorem qbeq_comm (a b : QSet) : a.beq b = b.beq a := by
  simp only [QSet.beq]; congr 1; funext q; cases a q <;> cases b q <;> rfl
theorem qxor_comm (a b : QSet) : a.xor b = b.xor a := by
  funext q; simp only [QSet.xor]; cases a q <;> cases b q <;> rfl

theorem gen_tcpSignaturesMatch (s : Sig) (p : PSig) (d : Int) : Gen.tcpSignaturesMatch s p d = tcpMatch s p d := by
  first
  | exact rfl
  | (unfold Gen.tcpSignaturesMatch tcpMatch maskedQ quirkStep windowBad v4Only v6Only
     simp only [qset_ofList_union, List.cons_append, List.nil_append, optInt_bne_wild, optInt_beq_wild, optInt_bne_cast,
       optBoolInt_bne_wild, optBoolInt_bne_bool, natCast_beq_ofNat, natCast_bne_ofNat, fmod_natCast, natCast_bne_zero,
       natCast_beq_cast, natCast_bne_cast, qxor_inter_left, qxor_inter_right, qinter_xor_left, qinter_xor_right]
     first
     | grind (splits := 60)
     | grind (splits := 60) [qbeq_comm, qxor_comm])

/-- **C01 against the source text**: `tcp_signatures_match` as printed from the working tree follows the
    declarative p0f matching rules, for every signature, packet signature and `max_dist`. -/
theorem source_tcpMatch_eq_spec (s : Sig) (p : PSig) (d : Int) : Gen.tcpSignaturesMatch s p d = specMatch s p d := by
  rw [gen_tcpSignaturesMatch]; exact tcpMatch_eq_spec s p d

end P0f
