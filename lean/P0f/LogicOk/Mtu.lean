import P0f.LogicOk.Prelude
import P0f.Model.Mtu
import P0f.Generated.Logic.MtuFromMss
import P0f.Generated.Logic.FindMtuMatch
import P0f.Generated.Logic.FingerprintMtu
import P0f.LogicOk.Gates
import P0f.Props.C08
namespace P0f
/-- `MTUPacketSignature.from_mss` as printed from the source: PacketError without an MSS, else MSS + 40 / 60 (C08) -/
theorem gen_mtuFromMss (mss v : Nat) :
    Gen.mtuFromMss mss v = if mss = 0 then none else some ((mss + mtuHdr v : Nat) : Int) := by
  first
  | exact rfl
  | (unfold Gen.mtuFromMss mtuHdr
     by_cases h : mss = 0
     · simp [h]
     · have : ¬ mss ≤ 0 := by omega
       by_cases h4 : v = 4 <;> simp [h, this, h4])

/-- `find_mtu_match` as printed from the source (with `mtu_signatures_match` inlined): the first record whose MTU is exactly
    the packet's.  A record is (its MTU, its position in the list). -/
theorem gen_findMtuMatch (recs : List (Nat × Nat)) (mtu : Nat) :
    Gen.findMtuMatch recs mtu = recs.find? (fun r => r.1 == mtu) := by
  first
  | exact rfl
  | (unfold Gen.findMtuMatch firstHit
     cases recs.find? (fun r => r.1 == mtu) <;> rfl)

theorem find_zipIdx (l : List Nat) (m k : Nat) :
    ((l.zipIdx k).find? (fun r => r.1 == m)).map (·.2) = (l.findIdx? (· == m)).map (· + k) := by
  induction l generalizing k with
  | nil => rfl
  | cons a t ih =>
    simp only [List.zipIdx_cons, List.find?_cons, List.findIdx?_cons]
    by_cases h : (a == m) = true
    · simp [h]
    · simp only [h]
      rw [ih (k + 1)]
      cases t.findIdx? (· == m) with
      | none => rfl
      | some i => simp; omega

/-- the printed search on the enumerated record list = the model's `findMtu` (index of the earliest record with that MTU) -/
theorem source_findMtu (db : List Nat) (mtu : Nat) : (Gen.findMtuMatch db.zipIdx mtu).map (·.2) = findMtu db mtu := by
  rw [gen_findMtuMatch]
  have := find_zipIdx db mtu 0
  simpa [findMtu] using this

/-- `fingerprint_mtu` as printed from the source (gate, `from_packet` = the printed `from_mss` on the packet's MSS and IP version,
    search, result) = the model's: PacketError exactly for a fragment / other flags / no MSS, else MSS + 40 / 60 and the
    earliest record with exactly that MTU (C08) -/
theorem gen_fingerprintMtu (db : List Nat) (p : PktL) :
    (Gen.fingerprintMtu db.zipIdx p).map (fun r => (r.1, r.2.map (·.2))) = fingerprintMtu db p := by
  unfold fingerprintMtu
  first
  | (unfold Gen.fingerprintMtu
     simp only [gen_validMtu, gen_mtuFromMss]
     by_cases hv : validMtu p.ip.isFragment p.tcp.type p.tcp.opts.mss = true
     · have hm : ¬ p.tcp.opts.mss = 0 := by
         intro h0
         simp [validMtu, h0] at hv
       simp only [hv, Bool.not_true, Bool.false_eq_true, if_false, hm, Option.map_some, Option.elim_some, Int.toNat_natCast, source_findMtu]
     · simp [hv])
  | (unfold Gen.fingerprintMtu
     by_cases hv : validMtu p.ip.isFragment p.tcp.type p.tcp.opts.mss = true
     · simp only [hv, Bool.not_true, Bool.false_eq_true, if_false, Option.map_some]
       have := find_zipIdx db (p.tcp.opts.mss + mtuHdr p.ip.version) 0
       simp only [findMtu]
       simpa using this
     · simp [hv])


/-- **C08 (fingerprint side) against the source text**: the printed `fingerprint_mtu` raises PacketError exactly for a fragment, a
    packet without MSS or one that is not a SYN / SYN+ACK, and otherwise reports MSS + 40 (IPv4) / + 60 (IPv6) with the EARLIEST
    record of exactly that MTU (its position in the list), or no record when there is none -/
theorem source_fpMtu_spec (db : List Nat) (p : PktL) :
    ((Gen.fingerprintMtu db.zipIdx p).map (fun r => (r.1, r.2.map (·.2))) = none ↔
        (p.ip.isFragment = true ∨ p.tcp.opts.mss = 0 ∨ ¬ (p.tcp.type = F_SYN ∨ p.tcp.type = F_SYN ||| F_ACK))) ∧
    (∀ mtu m, (Gen.fingerprintMtu db.zipIdx p).map (fun r => (r.1, r.2.map (·.2))) = some (mtu, m) →
        mtu = p.tcp.opts.mss + (if p.ip.version = 4 then 40 else 60) ∧
        (∀ i, m = some i → db[i]? = some mtu ∧ ∀ j < i, db[j]? ≠ some mtu) ∧ (m = none → mtu ∉ db)) := by
  rw [gen_fingerprintMtu]
  obtain ⟨h1, h2⟩ := fpMtu_spec db p
  refine ⟨h1, ?_⟩
  intro mtu m hm
  obtain ⟨e1, e2⟩ := h2 mtu m hm
  obtain ⟨f1, f2⟩ := findMtu_first db mtu
  subst e2
  exact ⟨e1, f1, f2⟩

end P0f
