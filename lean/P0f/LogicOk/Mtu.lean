import P0f.LogicOk.Prelude
import P0f.Model.Mtu
import P0f.Generated.Logic.MtuFromMss
namespace P0f
/-- `MTUPacketSignature.from_mss` as printed from the source: PacketError without an MSS, else MSS + 40 / 60 (C08) -/
theorem gen_mtuFromMss (mss v : Nat) :
    Gen.mtuFromMss mss v = if mss = 0 then none else some ((mss + mtuHdr v : Nat) : Int) := by
  first
  | exact rfl
  | (unfold Gen.mtuFromMss mtuHdr
     by_cases h : mss = 0
     · simp [h]
     · have : ¬ mss ≤ 0 := by omega
       by_cases h4 : v = 4 <;> simp [h, this, h4])
end P0f
