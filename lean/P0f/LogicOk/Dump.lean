import P0f.LogicOk.Prelude
import P0f.Lemmas.Match
import P0f.Model.TcpOptions
import P0f.Generated.Logic.DumpLayout
import P0f.Generated.Logic.DumpQuirks
/-
  The writers of C18 against the source text: `TCPOptions.dump` (option layout in p0f notation) and `dump_quirks`
  (`QUIRK_STRINGS` in declaration order, read from the live module).
-/
namespace P0f

theorem subsetOf_one' (q : Quirk) (s : QSet) : QSet.subsetOf (QSet.ofList [q]) s = s q := by
  unfold QSet.subsetOf
  cases h : s q
  · have : ¬ ∀ x, ((QSet.ofList [q]).inter s) x = (QSet.ofList [q]) x := by
      intro hx; have := hx q; simp [QSet.inter, QSet.ofList, h] at this
    cases hb : ((QSet.ofList [q]).inter s).beq (QSet.ofList [q])
    · rfl
    · exact absurd ((QSet.beq_iff _ _).mp hb) this
  · apply (QSet.beq_iff _ _).mpr
    intro x
    by_cases hx : x = q
    · subst hx; simp [QSet.inter, QSet.ofList, h]
    · simp [QSet.inter, QSet.ofList, hx]

/-- `TCPOptions.dump` as printed from the source = the model's `dumpLayout` -/
theorem gen_dumpLayout (layout : List Nat) (eolPad : Nat) : Gen.dumpLayout layout eolPad = dumpLayout layout eolPad := by
  first
  | exact rfl
  | (unfold Gen.dumpLayout dumpLayout joinComma
     simp only [if_true]
     congr 1
     apply List.map_congr_left
     intro k _
     unfold dumpOption optName
     by_cases h0 : k = 0
     · subst h0; rfl
     · have : (k != 0) = true := by simpa using h0
       simp only [this, if_true, h0, if_false]
       by_cases h1 : k = 1
       · subst h1; rfl
       · by_cases h2 : k = 2
         · subst h2; rfl
         · by_cases h3 : k = 3
           · subst h3; rfl
           · by_cases h4 : k = 4
             · subst h4; rfl
             · by_cases h5 : k = 5
               · subst h5; rfl
               · by_cases h8 : k = 8
                 · subst h8; rfl
                 · have b0 : (k == 0) = false := by simpa using h0
                   have b1 : (k == 1) = false := by simpa using h1
                   have b2 : (k == 2) = false := by simpa using h2
                   have b3 : (k == 3) = false := by simpa using h3
                   have b4 : (k == 4) = false := by simpa using h4
                   have b5 : (k == 5) = false := by simpa using h5
                   have b8 : (k == 8) = false := by simpa using h8
                   simp only [b0, b1, b2, b3, b4, b5, b8, Bool.false_eq_true, if_false, h1, h2, h3, h4, h5, h8]
                   rfl)

theorem flatten_cond {α β : Type} (q : α → Bool) (f : α → β) (l : List α) :
    (l.map (fun a => if q a then [f a] else [])).flatten = (l.filter q).map f := by
  induction l with
  | nil => rfl
  | cons a as ih =>
    simp only [List.map_cons, List.flatten_cons, ih, List.filter_cons]
    cases q a <;> simp

/-- `dump_quirks` as printed from the source = the model's `dumpQuirks` (names in `QUIRK_STRINGS` order) -/
theorem gen_dumpQuirks (q : QSet) : Gen.dumpQuirks q = dumpQuirks q := by
  first
  | exact rfl
  | (unfold Gen.dumpQuirks dumpQuirks joinComma QSet.toList
     simp only [subsetOf_one']
     rw [← flatten_cond q Quirk.str Quirk.all]
     rfl)

end P0f
