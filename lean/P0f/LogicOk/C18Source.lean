import P0f.LogicOk.Dump
import P0f.LogicOk.SigParse
import P0f.Props.C18
import P0f.Props.C09Sig
import P0f.Props.C15
import P0f.LogicOk.Labels
/-
  C18 with BOTH sides read from the source: the text `TCPOptions.dump` / `dump_quirks` print (as printed from the working
  tree) is accepted by `_parse_options` / `_parse_quirks` (as printed from the working tree) and denotes the same layout,
  EOL padding and quirk set.
-/
namespace P0f
open P0f.Py

/-- **C18, option layouts, source to source**: for every layout over kinds 0..255 and every EOL padding 0..255 -/
theorem source_layout_roundtrip (l : List Nat) (pad : Nat) (hk : ∀ k ∈ l, k ≤ 255) (hp : pad ≤ 255) :
    Gen.parseOptionsField (Gen.dumpLayout l pad) = some (optResOf (l, if 0 ∈ l then pad else 0)) := by
  rw [gen_dumpLayout, gen_parseOptionsField, dumpLayout_parse l pad hk hp]
  rfl

/-- **C18, quirk lists, source to source**: for every one of the 2^17 quirk sets legal for the signature's IP version -/
theorem source_quirks_roundtrip (qs : QSet) (v : Int)
    (hv : ∀ q, qs q = true → quirkInvalidFor (intToOpt v) q = false) :
    ∃ r, Gen.parseQuirksField (Gen.dumpQuirks qs) v = some r ∧ ∀ q, r q = qs q := by
  rw [gen_dumpQuirks, gen_parseQuirksField]
  exact dumpQuirks_parse qs (intToOpt v) hv

/-- **C09 (denotation of TCP signatures) against the source text**: `TCPSignature.parse`, as printed from the working
    tree, maps the canonical text of every well-formed signature to exactly that signature -/
theorem source_parseTcpSig_render (s : Sig) (h : s.WF) : Gen.parseTcpSig (renderTcpSig s) = some s := by
  rw [gen_parseTcpSig]; exact parseTcpSig_render_eq s h

/-- **C15 against the source text**: a label that `Label.parse` (as printed from the source) accepts is found again by the
    text `Label.dump` (as printed from the source) prints for it -/
theorem source_label_dump_fixpoint (t : List Char) (l : LabelM) (h : Gen.parseLabel t = some l) :
    Gen.parseLabel (Gen.dumpLabel l) = some l := by
  rw [gen_parseLabel] at h
  rw [gen_dumpLabel, gen_parseLabel]
  exact parseLabel_dump_fixpoint t l h

end P0f
