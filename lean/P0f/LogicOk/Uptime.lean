import P0f.LogicOk.Prelude
import P0f.LogicOk.RoundFrequency
import P0f.LogicOk.Gates
import P0f.Model.UptimeFields
import P0f.Props.C13
import P0f.Generated.Logic.UptimePostInit
import P0f.Generated.Logic.FingerprintUptime
namespace P0f

theorem tcpType_idem (f : Nat) : tcpType (tcpType f) = tcpType f := by
  unfold tcpType; rw [Nat.and_assoc, Nat.and_self]

theorem gen_uptimePostInit (ts : Nat) (raw : Q) (h : 0 ≤ Q.trunc raw) :
    Gen.uptimePostInit ts raw = uptimePostInit ts raw := by
  first
  | exact rfl
  | (unfold Gen.uptimePostInit uptimePostInit
     rw [gen_roundFrequency raw h]
     simp only [Prod.mk.injEq, true_and]
     generalize roundFrequency (Q.trunc raw).toNat = f
     have e1 : ((f : Nat) : Int) * (60 : Int) * (60 : Int) * (24 : Int) = ((f * 60 * 60 * 24 : Nat) : Int) := by
       simp [Int.natCast_mul]
     have e2 : (4294967295 : Int) = ((4294967295 : Nat) : Int) := rfl
     have e3 : (60 : Int) = ((60 : Nat) : Int) := rfl
     refine ⟨?_, ?_⟩
     · rw [fdiv_natCast, e3, fdiv_natCast]
     · rw [e1, e2, fdiv_natCast])

/-- 32-bit difference -/
theorem emod_tsDiff (a b : Nat) : Int.emod (((b : Nat) : Int) - ((a : Nat) : Int)) 4294967296 = ((tsDiff a b : Nat) : Int) := by
  unfold tsDiff TWO32
  have : (0 : Int) ≤ (((b : Int) - (a : Int)) % ((4294967296 : Nat) : Int)) := Int.emod_nonneg _ (by decide)
  rw [Int.toNat_of_nonneg this]; rfl

theorem emod_tsInv (d : Nat) (h : d < TWO32) : Int.emod (-((d : Nat) : Int) - 1) 4294967296 = ((tsInv d : Nat) : Int) := by
  unfold tsInv; unfold TWO32 at *
  show (-(d : Int) - 1) % 4294967296 = _
  omega


theorem tsDiff_lt (a b : Nat) : tsDiff a b < TWO32 := by
  unfold tsDiff TWO32
  have h1 : (0 : Int) ≤ (((b : Int) - (a : Int)) % ((4294967296 : Nat) : Int)) := Int.emod_nonneg _ (by decide)
  have h2 : (((b : Int) - (a : Int)) % ((4294967296 : Nat) : Int)) < ((4294967296 : Nat) : Int) := Int.emod_lt_of_pos _ (by decide)
  omega

theorem q_grace (o : UpOpts) (hD : o.Dom) (inv : Nat) :
    (Q.ofInt (Int.fdiv ((inv : Nat) : Int) 1000)).lt (Q.div ⟨(o.maxScaleN : Int), o.maxScaleD⟩ (Q.ofInt o.grace))
      = decide ((((inv / 1000 : Nat) : Nat) : Int) * o.maxScaleD * o.grace < o.maxScaleN) := by
  have hg := hD.grace
  have e3 : (1000 : Int) = ((1000 : Nat) : Int) := rfl
  have hpos : o.grace > 0 := by omega
  unfold Q.lt Q.div Q.ofInt
  simp only [hpos, if_true]
  rw [e3, fdiv_natCast]
  have : ((o.grace.toNat : Nat) : Int) = o.grace := Int.toNat_of_nonneg (by omega)
  simp only [Int.natCast_mul, this, Int.mul_one, Int.mul_assoc]
  simp

theorem q_fwd (d : Nat) (ms : Int) (hms : 0 < ms) :
    ((Q.ofInt ((d : Nat) : Int)).mul { num := 1000, den := 1 }).div (Q.ofInt ms) = ⟨((d * 1000 : Nat) : Int), ms.toNat⟩ := by
  unfold Q.div Q.mul Q.ofInt
  simp only [hms, if_true, gt_iff_lt]
  simp

theorem q_bwd (d : Nat) (ms : Int) (hms : 0 < ms) :
    ((Q.ofInt ((d : Nat) : Int)).mul (Q.neg { num := 1000, den := 1 })).div (Q.ofInt ms) = ⟨-((d * 1000 : Nat) : Int), ms.toNat⟩ := by
  unfold Q.div Q.mul Q.ofInt Q.neg
  simp only [hms, if_true, gt_iff_lt]
  simp

theorem q_le_min (o : UpOpts) (n : Int) (den : Nat) :
    Q.le ⟨(o.minScaleN : Int), o.minScaleD⟩ ⟨n, den⟩ = decide ((o.minScaleN : Int) * den ≤ n * o.minScaleD) := rfl
theorem q_le_max (o : UpOpts) (n : Int) (den : Nat) :
    Q.le ⟨n, den⟩ ⟨(o.maxScaleN : Int), o.maxScaleD⟩ = decide (n * o.maxScaleD ≤ (o.maxScaleN : Int) * den) := rfl

/-- reference transcription of `fingerprint_uptime` in the translator's vocabulary (exact rationals `Q`, Python integer
    operations); `uptimeRef_eq_model` ties it to the model once, `gen_fingerprintUptime` compares what the translator
    prints from the working tree with it -/
def fingerprintUptimeRef (o : UpOpts) (isFragment : Bool) (t : Nat) (tsPrev : Nat) (tsNow : Nat) (now : Int) (received : Int) : Option (Option Int × Option (Q × Int × Int × Int)) :=
  if (!(validUptime isFragment t)) then
    none
  else
    if ((!(tsNow != 0)) || (!(tsPrev != 0))) then
      (some ((none : Option Int), (none : Option (Q × Int × Int × Int))))
    else
      let ms_diff := (now - received)
      let ts_diff := (Int.emod (((tsNow : Nat) : Int) - ((tsPrev : Nat) : Int)) 4294967296)
      let ts_diff_inv := (Int.emod (-ts_diff - 1) 4294967296)
      if ((!((decide (o.minWait ≤ ms_diff)) && (decide (ms_diff ≤ o.maxWait)))) || ((decide (ts_diff < (5 : Int))) || ((decide (ms_diff < o.grace)) && (Q.lt (Q.ofInt (Int.fdiv ts_diff_inv (1000 : Int))) (Q.div (Q.mk (o.maxScaleN : Int) o.maxScaleD) (Q.ofInt o.grace)))))) then
        (some ((none : Option Int), (none : Option (Q × Int × Int × Int))))
      else
        let raw_frequency : Q :=
          if (decide (ts_diff > ts_diff_inv)) then
            let raw_frequency := (Q.div (Q.mul (Q.ofInt ts_diff_inv) (Q.neg (Q.mk (1000) 1))) (Q.ofInt ms_diff))
            (raw_frequency)
          else
            let raw_frequency := (Q.div (Q.mul (Q.ofInt ts_diff) (Q.mk (1000) 1)) (Q.ofInt ms_diff))
            (raw_frequency)
        if (!((Q.le (Q.mk (o.minScaleN : Int) o.minScaleD) raw_frequency) && (Q.le raw_frequency (Q.mk (o.maxScaleN : Int) o.maxScaleD)))) then
          (some ((if (t != 2) then (some (-1)) else none), (none : Option (Q × Int × Int × Int))))
        else
          let uptime := (P0f.Gen.uptimePostInit tsNow raw_frequency)
          (some ((some uptime.2.1), (some uptime)))


theorem uptimeRef_eq_model (o : UpOpts) (hD : o.Dom) (frag : Bool) (flags a b : Nat) (now rcv : Int) :
    fingerprintUptimeRef o frag (tcpType flags) a b now rcv
      = ofUpOut (fingerprintUptime o flags frag a b (now - rcv)) := by
  (  unfold fingerprintUptimeRef fingerprintUptime
     simp only [emod_tsDiff]
     by_cases hv : validUptime frag (tcpType flags) = true
     · simp only [hv, Bool.not_true, Bool.false_eq_true, if_false]
       by_cases hz : b = 0 ∨ a = 0
       · rw [if_pos hz, if_pos]
         · rfl
         · rcases hz with h | h <;> simp [h]
       · rw [if_neg hz, if_neg (by simp; omega)]
         generalize hms : now - rcv = ms
         generalize hd : tsDiff a b = d
         have hdl : d < TWO32 := hd ▸ tsDiff_lt a b
         simp only [emod_tsInv d hdl]
         rw [q_grace o hD]
         have hcond : (!(decide (o.minWait ≤ ms) && decide (ms ≤ o.maxWait)) ||
            (decide (((d : Nat) : Int) < 5) ||
              decide (ms < o.grace) && decide ((((tsInv d / 1000 : Nat) : Nat) : Int) * o.maxScaleD * o.grace < o.maxScaleN)))
            = decide (¬ (o.minWait ≤ ms ∧ ms ≤ o.maxWait)
             ∨ (d < 5 ∨ (ms < o.grace ∧ ((tsInv d / 1000 : Nat) : Int) * o.maxScaleD * o.grace < o.maxScaleN))) := by
           grind
         rw [hcond]
         by_cases hn : ¬ (o.minWait ≤ ms ∧ ms ≤ o.maxWait)
             ∨ (d < 5 ∨ (ms < o.grace ∧ ((tsInv d / 1000 : Nat) : Int) * o.maxScaleD * o.grace < o.maxScaleN))
         · rw [if_pos hn, if_pos (decide_eq_true hn)]
           rfl
         · rw [if_neg hn, if_neg (by rw [decide_eq_false hn]; exact Bool.false_ne_true)]
           have hw := hD.wait
           have hmspos : 0 < ms := by
             have : o.minWait ≤ ms := by
               apply Classical.byContradiction; intro hc; exact hn (Or.inl (fun h => hc h.1))
             omega
           rw [if_neg (show ¬ ms ≤ 0 by omega)]
           have hmin := hD.minPos
           have hminD := hD.minD
           by_cases hbk : d > tsInv d
           · have hbk' : (decide (((d : Nat) : Int) > ((tsInv d : Nat) : Int))) = true := by simp; omega
             rw [if_pos hbk, if_neg (show ¬ (o.minScaleN = 0 ∧ tsInv d = 0) by omega)]
             simp only [hbk', if_true, q_bwd _ ms hmspos]
             rw [q_le_min]
             have hfalse : decide ((o.minScaleN : Int) * (ms.toNat : Nat) ≤ -((tsInv d * 1000 : Nat) : Int) * o.minScaleD) = false := by
               have h1 : 0 < (o.minScaleN : Int) * ((ms.toNat : Nat) : Int) := Int.mul_pos (by omega) (by omega)
               have h2 : 0 ≤ ((tsInv d * 1000 : Nat) : Int) * (o.minScaleD : Int) := Int.mul_nonneg (by omega) (by omega)
               rw [Int.neg_mul]
               exact decide_eq_false (by omega)
             rw [hfalse]
             simp only [Bool.false_and, Bool.not_false, if_true]
             unfold badReading F_SYN
             by_cases ht : tcpType flags = 2 <;> simp [ht, ofUpOut]
           · have hbk' : (decide (((d : Nat) : Int) > ((tsInv d : Nat) : Int))) = false := by simp; omega
             rw [if_neg hbk]
             simp only [hbk', Bool.false_eq_true, if_false, q_fwd _ ms hmspos]
             rw [q_le_min, q_le_max]
             have hc : (decide ((o.minScaleN : Int) * ((ms.toNat : Nat) : Int) ≤ ((d * 1000 : Nat) : Int) * (o.minScaleD : Int)) &&
                 decide (((d * 1000 : Nat) : Int) * (o.maxScaleD : Int) ≤ (o.maxScaleN : Int) * ((ms.toNat : Nat) : Int)))
                 = decide (o.minScaleN * ms.toNat ≤ d * 1000 * o.minScaleD ∧ d * 1000 * o.maxScaleD ≤ o.maxScaleN * ms.toNat) := by
               simp only [← Int.natCast_mul, Int.ofNat_le, Bool.decide_and]
             rw [hc]
             by_cases hr : o.minScaleN * ms.toNat ≤ d * 1000 * o.minScaleD ∧ d * 1000 * o.maxScaleD ≤ o.maxScaleN * ms.toNat
             · rw [if_neg (show ¬¬(o.minScaleN * ms.toNat ≤ d * 1000 * o.minScaleD ∧ d * 1000 * o.maxScaleD ≤ o.maxScaleN * ms.toNat) from fun h => h hr)]
               rw [decide_eq_true hr]
               simp only [Bool.not_true, Bool.false_eq_true, if_false]
               have htr : Q.trunc ⟨((d * 1000 : Nat) : Int), ms.toNat⟩ = ((d * 1000 / ms.toNat : Nat) : Int) := by
                 unfold Q.trunc
                 show Int.tdiv ((d * 1000 : Nat) : Int) ((ms.toNat : Nat) : Int) = _
                 rw [Int.tdiv_eq_ediv_of_nonneg (by omega)]; rfl
               rw [gen_uptimePostInit _ _ (by rw [htr]; exact Int.natCast_nonneg _)]
               unfold uptimePostInit
               rw [htr]
               simp only [Int.toNat_natCast, ofUpOut]
             · rw [if_pos (show ¬(o.minScaleN * ms.toNat ≤ d * 1000 * o.minScaleD ∧ d * 1000 * o.maxScaleD ≤ o.maxScaleN * ms.toNat) from hr)]
               rw [decide_eq_false hr]
               simp only [Bool.not_false, if_true]
               unfold badReading F_SYN
               by_cases ht : tcpType flags = 2 <;> simp [ht, ofUpOut]
     · have hv' : validUptime frag (tcpType flags) = false := by simpa using hv
       simp [hv', ofUpOut])


theorem fingerprintUptime_type_idem (o : UpOpts) (flags : Nat) (frag : Bool) (a b : Nat) (ms : Int) :
    fingerprintUptime o (tcpType flags) frag a b ms = fingerprintUptime o flags frag a b ms := by
  unfold fingerprintUptime; rw [tcpType_idem]

theorem fmod32 (x : Int) : Int.fmod x 4294967296 = Int.emod x 4294967296 :=
  Int.fmod_eq_emod_of_nonneg x (by decide)

theorem emod32_range (x : Int) : 0 ≤ Int.emod x 4294967296 ∧ Int.emod x 4294967296 < 4294967296 :=
  ⟨Int.emod_nonneg _ (by decide), Int.emod_lt_of_pos _ (by decide)⟩

/-- `fingerprint_uptime` as printed from the source = the model's (C13) -/
theorem gen_fingerprintUptime (o : UpOpts) (hD : o.Dom) (frag : Bool) (flags a b : Nat) (now rcv : Int) :
    Gen.fingerprintUptime o frag (tcpType flags) a b now rcv
      = ofUpOut (fingerprintUptime o flags frag a b (now - rcv)) := by
  first
  | (unfold Gen.fingerprintUptime fingerprintUptimeFields; rw [fingerprintUptime_type_idem])
  | (have gen_uptime_eq_ref : ∀ (t a b : Nat), Gen.fingerprintUptime o frag t a b now rcv = fingerprintUptimeRef o frag t a b now rcv := by
       intro t a b
       have hr1 := emod32_range (((b : Nat) : Int) - ((a : Nat) : Int))
       first
       | (unfold Gen.fingerprintUptime fingerprintUptimeRef
          simp only [gen_validUptime]
          done)
       | (unfold Gen.fingerprintUptime fingerprintUptimeRef
          simp only [gen_validUptime, fmod32]
          grind)
       | (unfold Gen.fingerprintUptime fingerprintUptimeRef
          simp only [gen_validUptime, fmod32]
          have hinv : Int.emod (-(Int.emod (((b : Nat) : Int) - ((a : Nat) : Int)) 4294967296) - 1) 4294967296
              = 4294967295 - Int.emod (((b : Nat) : Int) - ((a : Nat) : Int)) 4294967296 := by
            generalize Int.emod (((b : Nat) : Int) - ((a : Nat) : Int)) 4294967296 = x at *
            show (-x - 1) % 4294967296 = _
            omega
          simp only [hinv]
          grind)
     rw [gen_uptime_eq_ref]; exact uptimeRef_eq_model o hD frag flags a b now rcv)

/-- **C13 against the source text**: `fingerprint_uptime` as printed from the working tree equals the rational-arithmetic
    reading of the property (floats read as exact rationals), for all timestamps, clocks, types and thresholds in the
    documented domain. -/
theorem source_uptime_eq_spec (o : UpOpts) (hD : o.Dom) (frag : Bool) (flags a b : Nat) (now rcv : Int)
    (ha : a < TWO32) (hb : b < TWO32) :
    Gen.fingerprintUptime o frag (tcpType flags) a b now rcv = ofUpOut (specUptime o flags frag a b (now - rcv)) := by
  rw [gen_fingerprintUptime o hD, uptime_eq_spec o hD flags frag a b (now - rcv) ha hb]

end P0f
