import P0f.LogicOk.Prelude
import P0f.Lemmas.Match
import P0f.Model.SigParse
import P0f.Model.SigFields
import P0f.Generated.Logic.ParseTtl
import P0f.Generated.Logic.ParseWindow
import P0f.Generated.Logic.ParseOptionsField
import P0f.Generated.Logic.ParseQuirksField
import P0f.Generated.Logic.ParseTcpSig
/-
  `TCPSignature.parse` and its field parsers (C09, C10, C18) against the source text.  The closures
  (`_parse_ip_version = fixed_numerical_options_parser({...})`, `range_number_parser(min=…, max=…)`) are inlined with the
  values their cells hold in the imported module, the lookup tables (`_STRING_OPTIONS`, `_STRING_QUIRKS`,
  `_INVALID_QUIRKS`) are read from the live module, exceptions (`FieldError`, the `ValueError` of `int()`) are `none`.
-/
namespace P0f
open P0f.Py

/-- the inlined `parse_number_in_range` (no wildcard) as the translator prints it = the model's `parseNumber` -/
theorem parseNumber_inlined (s : List Char) (lo hi : Int) :
    (Option.elim (pyInt? s) none (fun v => if (!((decide (lo ≤ v)) && (decide (v ≤ hi)))) then none else some v))
      = parseNumber s lo hi := by
  unfold parseNumber
  cases pyInt? s with
  | none => rfl
  | some v => by_cases h : lo ≤ v ∧ v ≤ hi <;> simp [h]

theorem isInfix_single (c : Char) (s : List Char) : isInfix [c] s = s.contains c := by
  induction s with
  | nil => rfl
  | cons x xs ih =>
    unfold isInfix
    rw [ih]
    simp only [List.isPrefixOf, List.contains_cons]
    cases h : (c == x)
    · have : (x == c) = false := by
        apply beq_eq_false_iff_ne.mpr; intro e; subst e; simp at h
      simp [this]
    · have e : c = x := by simpa using h
      subst e; simp

theorem take_len_pred (s : List Char) : List.take (s.length - 1) s = s.dropLast := by
  rw [List.dropLast_eq_take]

theorem parseNumber_range (s : List Char) (lo hi v : Int) (h : parseNumber s lo hi = some v) : lo ≤ v ∧ v ≤ hi := by
  unfold parseNumber at h
  cases hp : pyInt? s with
  | none => simp [hp] at h
  | some w =>
    simp only [hp] at h
    by_cases hr : lo ≤ w ∧ w ≤ hi
    · simp [hr] at h; subst h; exact hr
    · simp [hr] at h

theorem gen_parseTtl (f : List Char) : Gen.parseTtl f = (parseTtl f).map fun r => ((r.1 : Int), r.2) := by
  first
  | exact rfl
  | (unfold Gen.parseTtl parseTtl
     simp only [Bool.false_and, Bool.false_eq_true, if_false, parseNumber_inlined]
     have e1 : ("-".toList) = ['-'] := rfl
     have e2 : ("+".toList) = ['+'] := rfl
     simp only [e1, e2, isInfix_single, take_len_pred]
     by_cases h1 : endsWith f ['-'] = true
     · simp only [h1, if_true, Sum.elim_inr]
       unfold parseNumberN
       cases hp : parseNumber f.dropLast 1 255 with
       | none => rfl
       | some v =>
         have hr := parseNumber_range _ _ _ _ hp
         have hv : ((v.toNat : Nat) : Int) = v := Int.toNat_of_nonneg (by omega)
         have : ¬ (v > 255) := by omega
         simp [hv, this]
     · simp only [h1, Bool.false_eq_true, if_false]
       by_cases h2 : f.contains '+' = true
       · simp only [h2, if_true]
         unfold parseNumberN
         cases hd : parseNumber (partition '+' f).2.2 0 255 with
         | none => simp
         | some d =>
           have hdr := parseNumber_range _ _ _ _ hd
           cases ht : parseNumber (partition '+' f).1 1 255 with
           | none => simp [ht]
           | some t =>
             have htr := parseNumber_range _ _ _ _ ht
             have hdv : ((d.toNat : Nat) : Int) = d := Int.toNat_of_nonneg (by omega)
             have htv : ((t.toNat : Nat) : Int) = t := Int.toNat_of_nonneg (by omega)
             have hd0 : ¬ d < 0 := by omega
             by_cases hs : t + d > 255
             · have : t.toNat + d.toNat > 255 := by omega
               simp [hd0, hs, this, ht]
             · have : ¬ t.toNat + d.toNat > 255 := by omega
               simp [hd0, hs, this, ht, Int.natCast_add, hdv, htv]
       · simp only [h2, Bool.false_eq_true, if_false, Sum.elim_inr]
         unfold parseNumberN
         cases hp : parseNumber f 1 255 with
         | none => rfl
         | some v =>
           have hr := parseNumber_range _ _ _ _ hp
           have hv : ((v.toNat : Nat) : Int) = v := Int.toNat_of_nonneg (by omega)
           have : ¬ (v > 255) := by omega
           simp [hv, this])

theorem star_eq : ("*".toList) = ['*'] := rfl

/-- the inlined `parse_number_in_range(..., wildcard=True)` = the model's `parseNumberW`, WILDCARD as -1 -/
theorem parseNumberW_inlined (s : List Char) (lo hi : Int) (hlo : 0 ≤ lo) :
    (if (true && (false || (s == ['*']))) then (some (-1 : Int))
     else Option.elim (pyInt? s) none (fun v => if (!((decide (lo ≤ v)) && (decide (v ≤ hi)))) then none else some v))
      = (parseNumberW s lo hi).map optInt := by
  unfold parseNumberW isWildcardStr
  by_cases h : (s == ['*']) = true
  · simp [h, optInt]
  · have h' : (s == ['*']) = false := by simpa using h
    simp only [h', Bool.or_false, Bool.and_false, Bool.false_eq_true, if_false, parseNumber_inlined]
    cases hp : parseNumber s lo hi with
    | none => rfl
    | some v =>
      have hr := parseNumber_range _ _ _ _ hp
      have hv : ((v.toNat : Nat) : Int) = v := Int.toNat_of_nonneg (by omega)
      simp [optInt, hv]

theorem second_char (a b : Char) (rest w : List Char) (h : startsWith w (a :: b :: rest) = true) :
    List.take 1 w.tail = [b] := by
  unfold startsWith at h
  cases w with
  | nil => simp [List.isPrefixOf] at h
  | cons x xs =>
    cases xs with
    | nil => simp [List.isPrefixOf] at h
    | cons y ys =>
      simp [List.isPrefixOf] at h
      simp [h.2.1]

theorem gen_parseWindow (f : List Char) :
    Gen.parseWindow f = (parseWindow f).map fun r => (r.1, (if r.1 == WinType.any then (-1 : Int) else (r.2.1 : Int)), optInt r.2.2) := by
  first
  | exact rfl
  | (unfold Gen.parseWindow parseWindow
     simp only [star_eq, Bool.false_or]
     rw [show ∀ s : List Char, (if (true && (s == ['*'])) = true then some (-1 : Int)
           else Option.elim (pyInt? s) none (fun r0_2 => let value : Int := r0_2; if (!(decide ((0:Int) ≤ value) && decide (value ≤ (255:Int)))) = true then none else some value))
           = (parseNumberW s 0 255).map optInt from fun s => by
             have := parseNumberW_inlined s 0 255 (by omega); simpa using this]
     simp only [Bool.false_and, Bool.false_eq_true, if_false, parseNumber_inlined, isWildcardStr]
     generalize (partition ',' f).fst = w
     generalize (partition ',' f).2.snd = sc
     have hs : ("s".toList) = ['s'] := rfl
     have hp : ("%".toList) = ['%'] := rfl
     have em : ("mss*".toList) = ['m', 's', 's', '*'] := rfl
     have et : ("mtu*".toList) = ['m', 't', 'u', '*'] := rfl
     simp only [hs, hp, em, et]
     unfold parseNumberN
     -- the scale, common to all window forms
     cases hsc : parseNumberW sc 0 255 with
     | none =>
       by_cases h1 : (w == ['*']) = true
       · simp [h1]
       · by_cases h2 : startsWith w ['m', 's', 's', '*'] = true
         · cases parseNumber (List.drop 4 w) 1 1000 <;> simp [h1, h2]
         · by_cases h3 : startsWith w ['m', 't', 'u', '*'] = true
           · cases parseNumber (List.drop 4 w) 1 1000 <;> simp [h1, h2, h3]
           · by_cases h4 : startsWith w ['%'] = true
             · cases parseNumber (List.drop 1 w) 2 65535 <;> simp [h1, h2, h3, h4]
             · cases parseNumber w 0 65535 <;> simp [h1, h2, h3, h4]
     | some scv =>
       by_cases h1 : (w == ['*']) = true
       · simp [h1]
       · by_cases h2 : startsWith w ['m', 's', 's', '*'] = true
         · have hw : List.take 1 w.tail = ['s'] := second_char _ _ _ _ h2
           cases hn : parseNumber (List.drop 4 w) 1 1000 with
           | none => simp [h1, h2, hn]
           | some v =>
             have hr := parseNumber_range _ _ _ _ hn
             have hv : ((v.toNat : Nat) : Int) = v := Int.toNat_of_nonneg (by omega)
             simp [h1, h2, hn, hw, hv]
         · by_cases h3 : startsWith w ['m', 't', 'u', '*'] = true
           · have hw : List.take 1 w.tail = ['t'] := second_char _ _ _ _ h3
             cases hn : parseNumber (List.drop 4 w) 1 1000 with
             | none => simp [h1, h2, h3, hn]
             | some v =>
               have hr := parseNumber_range _ _ _ _ hn
               have hv : ((v.toNat : Nat) : Int) = v := Int.toNat_of_nonneg (by omega)
               simp [h1, h2, h3, hn, hw, hv]
           · by_cases h4 : startsWith w ['%'] = true
             · cases hn : parseNumber (List.drop 1 w) 2 65535 with
               | none => simp [h1, h2, h3, h4, hn]
               | some v =>
                 have hr := parseNumber_range _ _ _ _ hn
                 have hv : ((v.toNat : Nat) : Int) = v := Int.toNat_of_nonneg (by omega)
                 simp [h1, h2, h3, h4, hn, hv]
             · cases hn : parseNumber w 0 65535 with
               | none => simp [h1, h2, h3, h4, hn]
               | some v =>
                 have hr := parseNumber_range _ _ _ _ hn
                 have hv : ((v.toNat : Nat) : Int) = v := Int.toNat_of_nonneg (by omega)
                 simp [h1, h2, h3, h4, hn, hv])

/-- the carried state of the printed `_parse_options` loop against the model's fold state -/
def optAccOf (o : List Int) (e : Int) : List Nat × Nat := (o.map Int.toNat, e.toNat)
def optResOf (r : List Nat × Nat) : List Int × Int := (r.1.map (fun (k : Nat) => (k : Int)), (r.2 : Int))

theorem eolkey_prefix (x : List Char) (h : (x == "eol+{padding_length}".toList) = true) : startsWith x "eol+".toList = true := by
  have : x = "eol+{padding_length}".toList := by simpa using h
  subst this; rfl

/-- the `_STRING_OPTIONS` lookup as the translator prints it (membership test, then the value) = the model's `optionOfName`,
    for items that do not start with `eol+` (those are taken by the branch before) -/
theorem optname_inlined (x : List Char) (hne : ¬ startsWith x "eol+".toList = true) :
    (if (!(x == "eol+{padding_length}".toList || x == "nop".toList || x == "mss".toList || x == "ws".toList ||
            x == "sok".toList || x == "sack".toList || x == "ts".toList)) = true then (none : Option Int)
     else some (if (x == "eol+{padding_length}".toList) = true then (0 : Int) else if (x == "nop".toList) = true then 1
        else if (x == "mss".toList) = true then 2 else if (x == "ws".toList) = true then 3
        else if (x == "sok".toList) = true then 4 else if (x == "sack".toList) = true then 5
        else if (x == "ts".toList) = true then 8 else 0))
      = (optionOfName x).map (fun (k : Nat) => (k : Int)) := by
  have h0 : (x == "eol+{padding_length}".toList) = false := by
    cases h : (x == "eol+{padding_length}".toList)
    · rfl
    · exact absurd (eolkey_prefix x h) hne
  unfold optionOfName
  simp only [h0, Bool.false_or, Bool.false_eq_true, if_false]
  simp
  grind

/-- (only used when the generated file is the alias of the model: the alias of the loop is the model's fold) -/
theorem optLoop_alias (l : List (List Char)) (o : List Nat) (e : Nat) :
    ((l.foldlM optionsStep ((o.map (fun (k : Nat) => (k : Int))).map Int.toNat, ((e : Nat) : Int).toNat)).map
        fun r => (r.1.map (fun (k : Nat) => (k : Int)), (r.2 : Int)))
      = (l.foldlM optionsStep (o, e)).map optResOf := by
  have : (Int.toNat ∘ fun (k : Nat) => (k : Int)) = id := by funext k; simp
  simp only [List.map_map, this, List.map_id, Int.toNat_natCast]
  rfl

theorem gen_parseOptionsLoop (field : List Char) (raw : List (List Char)) (l : List (List Char)) (o : List Nat) (e : Nat) :
    Gen.parseOptionsField_loop0 field (o.map (fun (k : Nat) => (k : Int))) raw l (e : Int)
      = (l.foldlM optionsStep (o, e)).map optResOf := by
  first
  | (unfold Gen.parseOptionsField_loop0; exact optLoop_alias l o e)
  | (induction l generalizing o e with
     | nil =>
       unfold Gen.parseOptionsField_loop0
       simp [optResOf]
     | cons x xs ih =>
       unfold Gen.parseOptionsField_loop0
       simp only [List.foldlM_cons, optionsStep, parseOptionItem]
       have hq : ("?".toList) = ['?'] := rfl
       simp only [Bool.false_and, Bool.false_eq_true, if_false, parseNumber_inlined, hq]
       unfold parseNumberN
       by_cases h1 : startsWith x ['?'] = true
       · simp only [h1, if_true]
         cases hn : parseNumber (List.drop 1 x) 0 255 with
         | none => simp
         | some v =>
           have hr := parseNumber_range _ _ _ _ hn
           have hv : ((v.toNat : Nat) : Int) = v := Int.toNat_of_nonneg (by omega)
           have := ih (o ++ [v.toNat]) e
           simp only [List.map_append, List.map_cons, List.map_nil, hv] at this
           simp [this]
       · simp only [h1, Bool.false_eq_true, if_false]
         by_cases h2 : startsWith x "eol+".toList = true
         · simp only [h2, if_true]
           cases hn : parseNumber (List.drop 4 x) 0 255 with
           | none => simp
           | some v =>
             have hr := parseNumber_range _ _ _ _ hn
             have hv : ((v.toNat : Nat) : Int) = v := Int.toNat_of_nonneg (by omega)
             have := ih (o ++ [0]) v.toNat
             simp only [List.map_append, List.map_cons, List.map_nil, hv, Int.natCast_zero] at this
             simp [this]
         · simp only [h2, Bool.false_eq_true, if_false, optname_inlined x h2]
           cases hk : optionOfName x with
           | none => simp
           | some k =>
             have := ih (o ++ [k]) e
             simp only [List.map_append, List.map_cons, List.map_nil] at this
             simp [this])

/-- `_parse_options` as printed from the source = the model's (layout and EOL padding as Python ints) -/
theorem gen_parseOptionsField (f : List Char) :
    Gen.parseOptionsField f = (parseOptionsField f).map optResOf := by
  first
  | exact rfl
  | (unfold Gen.parseOptionsField parseOptionsField
     have := gen_parseOptionsLoop f (if (!List.isEmpty f) then split ',' f else []) (if (!List.isEmpty f) then split ',' f else []) [] 0
     simp only [List.map_nil, Int.natCast_zero] at this
     cases hf : f.isEmpty <;> simp_all)

theorem qinsert_eq_union (a : QSet) (q : Quirk) : a.insert q = a.union (QSet.ofList [q]) := by
  funext x; simp [QSet.insert, QSet.union, QSet.ofList]
  cases a x <;> simp <;> (cases x <;> cases q <;> rfl)

theorem subsetOf_one (q : Quirk) (s : QSet) : QSet.subsetOf (QSet.ofList [q]) s = s q := by
  unfold QSet.subsetOf
  cases h : s q
  · have : ¬ ∀ x, ((QSet.ofList [q]).inter s) x = (QSet.ofList [q]) x := by
      intro hx; have := hx q; simp [QSet.inter, QSet.ofList, h] at this
    cases hb : ((QSet.ofList [q]).inter s).beq (QSet.ofList [q])
    · rfl
    · exact absurd ((QSet.beq_iff _ _).mp hb) this
  · apply (QSet.beq_iff _ _).mpr
    intro x
    by_cases hx : x = q
    · subst hx; simp [QSet.inter, QSet.ofList, h]
    · simp [QSet.inter, QSet.ofList, hx]

/-- the `_STRING_QUIRKS` lookup as the translator prints it = the model's `quirkOfName` (as a singleton set) -/
theorem quirkname_inlined (x : List Char) :
    (if (!(x == "ecn".toList || x == "df".toList || x == "id+".toList || x == "id-".toList || x == "0+".toList ||
            x == "flow".toList || x == "seq-".toList || x == "ack+".toList || x == "ack-".toList || x == "uptr+".toList ||
            x == "urgf+".toList || x == "pushf+".toList || x == "ts1-".toList || x == "ts2+".toList || x == "opt+".toList ||
            x == "exws".toList || x == "bad".toList)) = true then (none : Option QSet)
     else some (if (x == "ecn".toList) = true then QSet.ofList [Quirk.ecn] else if (x == "df".toList) = true then QSet.ofList [Quirk.df]
        else if (x == "id+".toList) = true then QSet.ofList [Quirk.nzId] else if (x == "id-".toList) = true then QSet.ofList [Quirk.zeroId]
        else if (x == "0+".toList) = true then QSet.ofList [Quirk.nzMbz] else if (x == "flow".toList) = true then QSet.ofList [Quirk.flow]
        else if (x == "seq-".toList) = true then QSet.ofList [Quirk.zeroSeq] else if (x == "ack+".toList) = true then QSet.ofList [Quirk.nzAck]
        else if (x == "ack-".toList) = true then QSet.ofList [Quirk.zeroAck] else if (x == "uptr+".toList) = true then QSet.ofList [Quirk.nzUrg]
        else if (x == "urgf+".toList) = true then QSet.ofList [Quirk.urg] else if (x == "pushf+".toList) = true then QSet.ofList [Quirk.push]
        else if (x == "ts1-".toList) = true then QSet.ofList [Quirk.zeroTs1] else if (x == "ts2+".toList) = true then QSet.ofList [Quirk.nzTs2]
        else if (x == "opt+".toList) = true then QSet.ofList [Quirk.eolNz] else if (x == "exws".toList) = true then QSet.ofList [Quirk.exws]
        else if (x == "bad".toList) = true then QSet.ofList [Quirk.bad] else QSet.empty))
      = (quirkOfName x).map (fun q => QSet.ofList [q]) := by
  unfold quirkOfName
  by_cases h0 : x = "ecn".toList
  · subst h0; rfl
  by_cases h1 : x = "df".toList
  · subst h1; rfl
  by_cases h2 : x = "id+".toList
  · subst h2; rfl
  by_cases h3 : x = "id-".toList
  · subst h3; rfl
  by_cases h4 : x = "0+".toList
  · subst h4; rfl
  by_cases h5 : x = "flow".toList
  · subst h5; rfl
  by_cases h6 : x = "seq-".toList
  · subst h6; rfl
  by_cases h7 : x = "ack+".toList
  · subst h7; rfl
  by_cases h8 : x = "ack-".toList
  · subst h8; rfl
  by_cases h9 : x = "uptr+".toList
  · subst h9; rfl
  by_cases h10 : x = "urgf+".toList
  · subst h10; rfl
  by_cases h11 : x = "pushf+".toList
  · subst h11; rfl
  by_cases h12 : x = "ts1-".toList
  · subst h12; rfl
  by_cases h13 : x = "ts2+".toList
  · subst h13; rfl
  by_cases h14 : x = "opt+".toList
  · subst h14; rfl
  by_cases h15 : x = "exws".toList
  · subst h15; rfl
  by_cases h16 : x = "bad".toList
  · subst h16; rfl
  have hb : ∀ (l : List Char), x ≠ l → (x == l) = false := fun l h => beq_eq_false_iff_ne.mpr h
  have hq : ∀ (q : Quirk), (q.str == x) = false := by
    intro q; cases q <;> (apply beq_eq_false_iff_ne.mpr; intro e; simp [Quirk.str] at e; first | exact h0 (by rw [← e]; rfl) | exact h1 (by rw [← e]; rfl) | exact h2 (by rw [← e]; rfl) | exact h3 (by rw [← e]; rfl) | exact h4 (by rw [← e]; rfl) | exact h5 (by rw [← e]; rfl) | exact h6 (by rw [← e]; rfl) | exact h7 (by rw [← e]; rfl) | exact h8 (by rw [← e]; rfl) | exact h9 (by rw [← e]; rfl) | exact h10 (by rw [← e]; rfl) | exact h11 (by rw [← e]; rfl) | exact h12 (by rw [← e]; rfl) | exact h13 (by rw [← e]; rfl) | exact h14 (by rw [← e]; rfl) | exact h15 (by rw [← e]; rfl) | exact h16 (by rw [← e]; rfl))
  have hf : Quirk.all.find? (fun q => q.str == x) = none := by
    rw [List.find?_eq_none]; intro q _; simp [hq q]
  rw [hf]
  simp only [hb _ h0, hb _ h1, hb _ h2, hb _ h3, hb _ h4, hb _ h5, hb _ h6, hb _ h7, hb _ h8, hb _ h9, hb _ h10, hb _ h11, hb _ h12, hb _ h13, hb _ h14, hb _ h15, hb _ h16, Bool.or_false, Bool.not_false, if_true, Option.map_none]

theorem gen_parseQuirksLoop (field : List Char) (v : Int) (raw : List (List Char)) (l : List (List Char)) (q : QSet) :
    Gen.parseQuirksField_loop0 field v
        (if (v == (4 : Int)) then some (QSet.ofList [.flow]) else (if (v == (6 : Int)) then some (QSet.ofList [.df, .nzId, .zeroId, .nzMbz]) else none))
        raw l q
      = l.foldlM (quirksStep (intToOpt v)) q := by
  first
  | (unfold Gen.parseQuirksField_loop0; rfl)
  | (induction l generalizing q with
     | nil => unfold Gen.parseQuirksField_loop0; rfl
     | cons x xs ih =>
       unfold Gen.parseQuirksField_loop0
       simp only [List.foldlM_cons, quirksStep, quirkname_inlined]
       cases hk : quirkOfName x with
       | none => simp
       | some k =>
         simp only [Option.map_some, Option.elim_some, subsetOf_one]
         have hinv : ((Option.isSome (if (v == (4 : Int)) = true then some (QSet.ofList [Quirk.flow])
                 else if (v == (6 : Int)) = true then some (QSet.ofList [Quirk.df, Quirk.nzId, Quirk.zeroId, Quirk.nzMbz]) else none)) &&
               (Option.elim (if (v == (4 : Int)) = true then some (QSet.ofList [Quirk.flow])
                 else if (v == (6 : Int)) = true then some (QSet.ofList [Quirk.df, Quirk.nzId, Quirk.zeroId, Quirk.nzMbz]) else none) false (fun y => y k)))
             = quirkInvalidFor (intToOpt v) k := by
           unfold quirkInvalidFor intToOpt
           by_cases h4 : v = 4
           · subst h4; cases k <;> simp [QSet.ofList]
           · by_cases h6 : v = 6
             · subst h6; cases k <;> simp [QSet.ofList]
             · have e4 : (v == (4 : Int)) = false := by simpa using h4
               have e6 : (v == (6 : Int)) = false := by simpa using h6
               simp only [e4, e6, Bool.false_eq_true, if_false, Option.isSome_none, Bool.false_and]
               by_cases hneg : v < 0
               · simp [hneg]
               · simp only [hneg, if_false]
                 have h1 : v.toNat ≠ 4 := by omega
                 have h2 : v.toNat ≠ 6 := by omega
                 split <;> simp_all
         rw [hinv]
         cases quirkInvalidFor (intToOpt v) k
         · simp only [Bool.false_eq_true, if_false]
           have := ih (q.union (QSet.ofList [k]))
           rw [this, qinsert_eq_union]
           rfl
         · simp)

/-- `_parse_quirks` as printed from the source = the model's -/
theorem gen_parseQuirksField (f : List Char) (v : Int) :
    Gen.parseQuirksField f v = parseQuirksField f (intToOpt v) := by
  first
  | exact rfl
  | (unfold Gen.parseQuirksField parseQuirksField
     simp only []
     rw [gen_parseQuirksLoop]
     cases hf : f.isEmpty <;> simp)


theorem splitParts_len (c : Char) (n : Nat) (s : List Char) : (splitParts c n s).length = n := by
  unfold splitParts
  simp only [List.length_append, List.length_replicate, List.length_take]
  omega

theorem elim_none_some {α : Type} (o : Option α) : Option.elim o none (fun r => some r) = o := by
  cases o <;> rfl

theorem list8 {α : Type} (l : List α) (d : α) (h : l.length = 8) :
    l = [l.getD 0 d, l.getD 1 d, l.getD 2 d, l.getD 3 d, l.getD 4 d, l.getD 5 d, l.getD 6 d, l.getD 7 d] := by
  match l, h with
  | [a, b, c, e, f, g, i, j], _ => rfl

theorem ipver_inlined (s : List Char) :
    (if (true && (false || (s == ['*']))) then (some (-1 : Int))
     else (if (!((s == "4".toList) || (s == "6".toList))) then (none : Option Int)
           else some (if (s == "4".toList) then (4 : Int) else (if (s == "6".toList) then (6 : Int) else (0 : Int)))))
      = (parseIpVersion s).map optInt := by
  unfold parseIpVersion isWildcardStr
  have e4 : ("4".toList) = ['4'] := rfl
  have e6 : ("6".toList) = ['6'] := rfl
  simp only [e4, e6]
  by_cases h : (s == ['*']) = true
  · simp [h, optInt]
  · by_cases h4 : (s == ['4']) = true
    · simp [h, h4, optInt]
    · by_cases h6 : (s == ['6']) = true
      · simp [h, h4, h6, optInt]
      · simp [h, h4, h6]

theorem payclass_inlined (s : List Char) :
    (if (true && (false || (s == ['*']))) then (some (-1 : Int))
     else (if (!((s == "0".toList) || (s == "+".toList))) then (none : Option Int)
           else some (if (s == "0".toList) then (0 : Int) else (if (s == "+".toList) then (1 : Int) else (0 : Int)))))
      = (parsePayloadClass s).map optBoolInt := by
  unfold parsePayloadClass isWildcardStr
  have e4 : ("0".toList) = ['0'] := rfl
  have e6 : ("+".toList) = ['+'] := rfl
  simp only [e4, e6]
  by_cases h : (s == ['*']) = true
  · simp [h, optBoolInt]
  · by_cases h4 : (s == ['0']) = true
    · simp [h, h4, optBoolInt]
    · by_cases h6 : (s == ['+']) = true
      · simp [h, h4, h6, optBoolInt]
      · simp [h, h4, h6]

theorem numW_inlined2 (a : List Char) (lo hi : Int) (hlo : 0 ≤ lo) :
    (if (true && (false || a == ['*'])) = true then some (-1 : Int) else parseNumber a lo hi) = (parseNumberW a lo hi).map optInt := by
  have := parseNumberW_inlined a lo hi hlo
  simp only [parseNumber_inlined] at this
  exact this

theorem intToOpt_optInt (o : Option Nat) : intToOpt (optInt o) = o := by
  cases o with
  | none => rfl
  | some n =>
    have : ¬ ((n : Nat) : Int) < 0 := by omega
    simp [optInt, intToOpt, this]

theorem parseWindow_any (f : List Char) (n : Nat) (sc : Option Nat) (h : parseWindow f = some (WinType.any, n, sc)) : n = 0 := by
  unfold parseWindow at h
  simp only at h
  split at h
  · rename_i t m s2 h1 h2
    simp only [Option.some.injEq, Prod.mk.injEq] at h
    obtain ⟨rfl, rfl, rfl⟩ := h
    split at h1
    · simp at h1; omega
    · split at h1
      · cases hx : parseNumberN (List.drop 4 (partition ',' f).1) 1 1000 <;> simp [hx] at h1
      · split at h1
        · cases hx : parseNumberN (List.drop 4 (partition ',' f).1) 1 1000 <;> simp [hx] at h1
        · split at h1
          · cases hx : parseNumberN (List.drop 1 (partition ',' f).1) 2 65535 <;> simp [hx] at h1
          · cases hx : parseNumberN (partition ',' f).1 0 65535 <;> simp [hx] at h1
  · simp at h

theorem gen_parseTcpSig (raw : List Char) : Gen.parseTcpSig raw = parseTcpSig raw := by
  first
  | exact rfl
  | (unfold Gen.parseTcpSig parseTcpSig
     have h8 := list8 (splitParts ':' 8 raw) [] (splitParts_len ':' 8 raw)
     simp only []
     generalize (splitParts ':' 8 raw).getD 0 [] = a0 at *
     generalize (splitParts ':' 8 raw).getD 1 [] = a1 at *
     generalize (splitParts ':' 8 raw).getD 2 [] = a2 at *
     generalize (splitParts ':' 8 raw).getD 3 [] = a3 at *
     generalize (splitParts ':' 8 raw).getD 4 [] = a4 at *
     generalize (splitParts ':' 8 raw).getD 5 [] = a5 at *
     generalize (splitParts ':' 8 raw).getD 6 [] = a6 at *
     generalize (splitParts ':' 8 raw).getD 7 [] = a7 at *
     rw [h8]
     simp only [star_eq, elim_none_some, ipver_inlined, payclass_inlined, Bool.false_and, Bool.false_eq_true, if_false, parseNumber_inlined,
       gen_parseTtl, gen_parseWindow, gen_parseOptionsField, gen_parseQuirksField]
     simp only [numW_inlined2 a3 0 65535 (by omega)]
     unfold parseNumberN
     cases h0 : parseIpVersion a0 with
     | none => simp
     | some ver =>
       cases h1 : parseTtl a1 with
       | none => simp
       | some tb =>
         obtain ⟨ttl, bad⟩ := tb
         cases h3 : parseNumberW a3 0 65535 with
         | none => simp
         | some mss =>
           cases h5 : parseOptionsField a5 with
           | none => simp
           | some lp =>
             obtain ⟨layout, pad⟩ := lp
             cases h2 : parseNumber a2 0 255 with
             | none => simp
             | some olen =>
               have hol := parseNumber_range _ _ _ _ h2
               cases h4 : parseWindow a4 with
               | none => simp
               | some w =>
                 obtain ⟨wt, wsz, sc⟩ := w
                 cases h7 : parsePayloadClass a7 with
                 | none => simp
                 | some pay =>
                   simp only [Option.map_some, Option.elim_some, intToOpt_optInt]
                   cases h6 : parseQuirksField a6 ver with
                   | none => simp
                   | some q =>
                     simp only [Option.elim_some, Option.map_some, Option.some.injEq]
                     unfold sigOfFields optResOf
                     have hw : (if (wt == WinType.any) = true then (-1 : Int) else (wsz : Int)).toNat = wsz := by
                       by_cases ha : wt = WinType.any
                       · subst ha
                         have := parseWindow_any a4 wsz sc h4
                         subst this; rfl
                       · have : (wt == WinType.any) = false := by simpa using ha
                         simp [this]
                     have hp : (if optBoolInt pay < 0 then none else some (decide (optBoolInt pay ≠ 0))) = pay := by
                       rcases pay with _ | b
                       · rfl
                       · cases b <;> rfl
                     simp only [intToOpt_optInt, hw, hp, Int.toNat_natCast]
                     congr 1
                     have : (Int.toNat ∘ fun (k : Nat) => (k : Int)) = id := by funext k; simp
                     simp [this])

end P0f
