import P0f.LogicOk.Prelude
import P0f.Model.Uptime
import P0f.Model.Find
import P0f.Model.Mtu
import P0f.Generated.Logic.RoundFrequency
import P0f.Generated.Logic.GuessDistance
import P0f.Generated.Logic.WindowMultiplier
import P0f.Generated.Logic.ShouldFingerprint
import P0f.Generated.Logic.ValidTcp
import P0f.Generated.Logic.ValidUptime
import P0f.Generated.Logic.ValidMtu
/-
  Bridging theorems: the definitions the translator (harness/py2lean.py) printed from the working tree's source
  equal the hand-written model functions the property theorems are about.
-/
namespace P0f

/-- `guess_distance` (C02) -/
theorem gen_guessDistance (ttl : Nat) : Gen.guessDistance ttl = guessDistance ttl := by
  unfold Gen.guessDistance guessDistance firstHit
  simp only [List.find?]
  grind

/-- `round_frequency` (C13); the code only calls it with a reading inside `[min scale, max scale]`, hence `0 ≤` -/
theorem gen_roundFrequency (q : Q) (h : 0 ≤ Q.trunc q) :
    Gen.roundFrequency q = (roundFrequency (Q.trunc q).toNat : Nat) := by
  unfold Gen.roundFrequency roundFrequency
  generalize Q.trunc q = f at *
  obtain ⟨n, rfl⟩ := Int.eq_ofNat_of_zero_le h
  simp only [Int.toNat_natCast]
  grind

/-- `Packet.should_fingerprint` -/
theorem gen_shouldFingerprint (f : Bool) (t : Nat) : Gen.shouldFingerprint f t = shouldFingerprint f t := by
  unfold Gen.shouldFingerprint shouldFingerprint hasAll F_SYN F_FIN F_RST
  simp

/-- `valid_for_tcp_fingerprint` -/
theorem gen_validTcp (f : Bool) (t : Nat) : Gen.validTcp f t = validTcp f t := by
  unfold Gen.validTcp validTcp F_SYN F_ACK
  rw [gen_shouldFingerprint]

/-- `valid_for_uptime_fingerprint` -/
theorem gen_validUptime (f : Bool) (t : Nat) : Gen.validUptime f t = validUptime f t := by
  unfold Gen.validUptime validUptime F_SYN F_ACK
  rw [gen_shouldFingerprint]

/-- `valid_for_mtu_fingerprint` -/
theorem gen_validMtu (f : Bool) (t m : Nat) : Gen.validMtu f t m = validMtu f t m := by
  unfold Gen.validMtu validMtu F_SYN F_ACK
  rw [gen_shouldFingerprint]
  simp

/-- `TCPPacketSignature.calculate_window_multiplier` (C17, C01) -/
theorem gen_windowMult (p : WIn) : Gen.windowMult p = windowMult p := by
  unfold Gen.windowMult windowMult
  by_cases h : p.win = 0 ∨ p.mss < 100
  · rw [if_pos h, if_pos]
    · rfl
    · rcases h with h | h <;> simp [h]; omega
  · rw [if_neg h, if_neg]
    · simp only []
      rw [firstHit_divides]
      unfold divisors MIN_TCP4 MIN_TCP6
      by_cases h1 : p.ts = 0 <;> by_cases h2 : p.ipVer = 6 <;> by_cases h3 : p.synMss = 0 <;>
        simp [h1, h2, h3, WILDCARD] <;> rfl
    · simp; omega

end P0f
