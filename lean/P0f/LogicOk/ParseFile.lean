import P0f.LogicOk.Labels
import P0f.Generated.Logic.ParseFile
/-
  `_parse_file` (C09, C10, C11) against the source text: the line loop of the database parser, with its state machine
  (`ParserState`), the record store calls and the line numbers of `ParsingError`.
-/
namespace P0f
open P0f.Py

theorem gen_parseSigFor (k : RecKind) (v : List Char) : Gen.parseSigFor k v = parseSigFor k v := by
  cases k
  · simp only [Gen.parseSigFor, parseSigFor, gen_parseMtuSig, Option.map_map]
    congr 1
  · simp only [Gen.parseSigFor, parseSigFor, gen_parseTcpSig]
  · rfl

theorem gen_parseLabelFor (k : RecKind) (v : List Char) : Gen.parseLabelFor k v = parseLabelFor k v := by
  cases k <;> simp only [Gen.parseLabelFor, parseLabelFor, gen_parseLabel]

theorem secOf_section (s : Section) : secOf s.kind s.dir = some s := by cases s <;> rfl

theorem createKD_section (db : Db) (s : Section) : Db.createKD db s.kind s.dir = db.create s := by
  simp [Db.createKD, secOf_section]

theorem addKD_section {β : Type} (db : Db) (s : Section) (r : DbRec) (e : β) (f : Db → β) :
    Option.elim (Db.addKD db s.kind s.dir r) e f =
      (match db.add s r with | .ok db' => f db' | .error _ => e) := by
  simp only [Db.addKD, secOf_section]
  cases db.add s r <;> rfl

theorem add_error (db : Db) (s : Section) (r : DbRec) (e : LoadErr) (h : db.add s r = .error e) : e = .database := by
  unfold Db.add at h
  split at h <;> simp_all


/-- `line[0] == c` on a non-empty stripped line, as the printed code spells it (`line[0:1]` against a one-character string) -/
theorem take1_cons (c d : Char) (t : List Char) : ((List.take 1 (List.drop 0 (c :: t))) == [d]) = (c == d) := by
  simp

/-- boolean / conditional normalisation used between the case splits -/
macro "pf_norm" : tactic => `(tactic| simp only [Bool.not_not, Bool.not_true, Bool.not_false, Bool.or_true, Bool.true_or, Bool.or_false,
  Bool.false_or, Bool.and_true, Bool.true_and, Bool.false_and, Bool.and_false, Bool.false_eq_true, Bool.or_self, if_true, if_false, ite_true, ite_false,
  Sum.elim_inr, Sum.elim_inl, Option.elim_some, Option.elim_none, Option.map_some, Option.map_none, Option.bind_some, Option.bind_none,
  bne_self_eq_false, List.isEmpty_cons, List.head?_cons])

def dbOf : Except LoadErr PSt → Except LoadErr Db
  | .ok st => .ok st.db
  | .error e => .error e

theorem gen_parseFileLoop (file : List (List Char)) : ∀ (ls : List (List Char)) (n : Nat) (db : Db) (state : PState) (sec : Option Section)
    (label : Option DbLabel),
    Gen.parseFileLines_loop0 file ls db (sec.bind Section.dir) label n (sec.map Section.kind) state
      = dbOf (parseGo ls n { db := db, state := state, label := label, sec := sec }) := by
  first
  | (intro ls n db state sec label
     unfold Gen.parseFileLines_loop0
     have hs : ((sec.map Section.kind).bind fun k => secOf k (sec.bind Section.dir)) = sec := by
       cases sec with
       | none => rfl
       | some s => simp [secOf_section]
     rw [hs]
     rfl)
  | (intro ls
     induction ls with
     | nil => intros; rfl
     | cons raw ls ih =>
       intro n db state sec label
       unfold Gen.parseFileLines_loop0 parseGo stepLine
       have e1 : ("\n".toList) = ['\n'] := rfl
       have e2 : (";".toList) = [';'] := rfl
       have e3 : ("[".toList) = ['['] := rfl
       simp only [e1, e2, e3]
       cases hl : strip raw with
       | nil => simp [ih]
       | cons c t =>
         simp only [take1_cons]
         generalize strip (partition '=' (c :: t)).fst = param
         generalize strip (partition '=' (c :: t)).snd.snd = value
         pf_norm
         by_cases hsk : (c == ';' || c == '\n') = true
         · have hsk' : (c == '\n' || c == ';') = true := by rw [Bool.or_comm]; exact hsk
           simp only [hsk, hsk']; pf_norm; exact ih _ _ _ _ _
         · have hsk' : ¬ (c == '\n' || c == ';') = true := by rw [Bool.or_comm]; exact hsk
           simp only [hsk, hsk']; pf_norm
           by_cases hb : (c == '[') = true
           · simp only [hb, if_true, gen_parseSection]
             cases parseSection (c :: t) with
             | none => rfl
             | some s => simp only [Option.map_some, Option.elim_some, createKD_section]; exact ih _ _ _ (some s) _
           · simp only [hb, if_false]
             by_cases hsig : (param == "sig".toList) = true
             · simp only [hsig, if_true]
               cases sec with
               | none => cases state <;> rfl
               | some s =>
                 simp only [Option.map_some, Option.elim_some, Option.bind_some, gen_parseSigFor, addKD_section]
                 cases state <;> try rfl
                 simp only [bne_self_eq_false, Bool.false_eq_true, if_false]
                 cases parseSigFor s.kind value with
                 | none => rfl
                 | some sg =>
                   simp only [Option.elim_some]
                   cases hadd : db.add s { label := label, sig := sg, raw := value, line := n } with
                   | ok db' => simp only [Sum.elim_inr]; exact ih _ _ _ (some s) _
                   | error e => have := add_error _ _ _ _ hadd; subst this; rfl
             · simp only [hsig, if_false]
               by_cases hlab : (param == "label".toList) = true
               · simp only [hlab, if_true]
                 cases sec with
                 | none => rfl
                 | some s =>
                   simp only [Option.map_some, Option.elim_some, gen_parseLabelFor]
                   by_cases hst : (state == PState.needLabel || state == PState.needSig) = true
                   · simp only [hst, Bool.not_true, Bool.false_eq_true, if_false, if_true]
                     cases parseLabelFor s.kind value with
                     | none => rfl
                     | some lb =>
                       simp only [Option.elim_some]
                       cases lb with
                       | mtu nm => simp only [DbLabel.isOs, DbLabel.isUserApp, Bool.false_and, Bool.false_eq_true, if_false, Sum.elim_inr]; exact ih _ _ _ (some s) _
                       | os l sy =>
                         simp only [DbLabel.isOs, DbLabel.isUserApp, Bool.true_and]
                         by_cases hu : l.isUserApp = true
                         · simp only [hu]; pf_norm; exact ih _ _ _ (some s) _
                         · simp only [hu]; pf_norm; exact ih _ _ _ (some s) _
                   · simp only [hst, Bool.not_false, if_true, if_false]; rfl
               · simp only [hlab, if_false]
                 by_cases hsys : (param == "sys".toList) = true
                 · simp only [hsys, if_true]
                   cases state <;> try (cases label <;> rfl)
                   cases label with
                   | none => rfl
                   | some lb =>
                     cases lb with
                     | mtu nm => rfl
                     | os l sy =>
                       simp only [bne_self_eq_false, Option.elim_some, DbLabel.isOs, Bool.not_true, Bool.or_self, Bool.false_eq_true, if_false,
                         Sum.elim_inr, Option.map_some, DbLabel.withSys]
                       exact ih _ _ _ _ _
                 · simp only [hsys, if_false, isSkippedParam]
                   by_cases hskp : (param == "classes".toList || param == "ua_os".toList) = true
                   · simp only [hskp, Bool.not_true, Bool.false_eq_true, if_false, if_true, Sum.elim_inr]; exact ih _ _ _ _ _
                   · simp only [hskp, Bool.not_false, if_true, if_false]; rfl)

/-- `_parse_file` as printed from the source = the model's line loop: for every sequence of lines, the same record store or
    the same error, line number included (C09: what a load denotes; C10: which errors can leave it; C11: nothing is kept of a
    failed load, since the value is only returned at the end) -/
theorem gen_parseFileLines (ls : List (List Char)) : Gen.parseFileLines ls = parseLines ls := by
  first
  | exact rfl
  | (unfold Gen.parseFileLines parseLines
     have := gen_parseFileLoop ls ls 1 Db.empty PState.needSection none none
     simp only [Option.bind_none, Option.map_none] at this
     simp only [this, dbOf, PSt.init]
     rfl)

end P0f
