import P0f.LogicOk.Labels
import P0f.LogicOk.HttpSigParse
import P0f.Generated.Logic.ParseFile
/-
  `_parse_file` (C09, C10, C11) against the source text: the line loop of the database parser, with its state machine
  (`ParserState`), the record store calls and the line numbers of `ParsingError`.
-/
namespace P0f
open P0f.Py

theorem gen_parseSigFor (k : RecKind) (v : List Char) : Gen.parseSigFor k v = parseSigFor k v := by
  cases k
  · simp only [Gen.parseSigFor, parseSigFor, gen_parseMtuSig, Option.map_map]
    congr 1
  · simp only [Gen.parseSigFor, parseSigFor, gen_parseTcpSig]
  · simp only [Gen.parseSigFor, parseSigFor, gen_parseHttpSig]

theorem gen_parseLabelFor (k : RecKind) (v : List Char) : Gen.parseLabelFor k v = parseLabelFor k v := by
  cases k <;> simp only [Gen.parseLabelFor, parseLabelFor, gen_parseLabel]

/-- `Option.elim` as a `match`, so that `grind` splits on the optional values the printed code binds -/
theorem elim_eq_match {α β : Type} (o : Option α) (e : β) (f : α → β) :
    o.elim e f = (match o with | none => e | some v => f v) := by cases o <;> rfl

theorem secOf_section (s : Section) : secOf s.kind s.dir = some s := by cases s <;> rfl

theorem createKD_section (db : Db) (s : Section) : Db.createKD db s.kind s.dir = db.create s := by
  simp [Db.createKD, secOf_section]

theorem addKD_section {β : Type} (db : Db) (s : Section) (r : DbRec) (e : β) (f : Db → β) :
    Option.elim (Db.addKD db s.kind s.dir r) e f =
      (match db.add s r with | .ok db' => f db' | .error _ => e) := by
  simp only [Db.addKD, secOf_section]
  cases db.add s r <;> rfl

theorem add_error (db : Db) (s : Section) (r : DbRec) (e : LoadErr) (h : db.add s r = .error e) : e = .database := by
  unfold Db.add at h
  split at h <;> simp_all


/-- `line[0] == c` on a non-empty stripped line, as the printed code spells it (`line[0:1]` against a one-character string) -/
theorem take1_cons (c d : Char) (t : List Char) : ((List.take 1 (List.drop 0 (c :: t))) == [d]) = (c == d) := by
  simp

/-- boolean / conditional normalisation used between the case splits -/
macro "pf_norm" : tactic => `(tactic| simp only [Bool.not_not, Bool.not_true, Bool.not_false, Bool.or_true, Bool.true_or, Bool.or_false,
  Bool.false_or, Bool.and_true, Bool.true_and, Bool.false_and, Bool.and_false, Bool.false_eq_true, Bool.or_self, if_true, if_false, ite_true, ite_false,
  Sum.elim_inr, Sum.elim_inl, Option.elim_some, Option.elim_none, Option.map_some, Option.map_none, Option.bind_some, Option.bind_none,
  bne_self_eq_false, List.isEmpty_cons, List.head?_cons])

/-! ### stage 1 reference: a frozen copy of the printed loop (as generated from the pinned source).  The printed loop of the
    working tree is first shown equal to this copy (by `rfl`, or by unfolding + congruence when the source was rewritten), and the
    copy is shown equal to the model by the case analysis below - so that a harmless rewrite of `_parse_file` does not have to be
    matched by that case analysis. -/
namespace Ref
open P0f P0f.Py
def parseFileLoop (file : List (List Char)) : List (List Char) → Db → (Option Dir) → (Option DbLabel) → Nat → (Option RecKind) → PState → Except LoadErr Db
  | [], database, direction, label, line_number_next, record_cls, state =>
    (Except.ok database)
  | line :: xs, database, direction, label, line_number_next, record_cls, state =>
    let line_number : Nat := line_number_next
    let line_number_next : Nat := (line_number_next + 1)
    let line := (strip line)
    if ((!(!List.isEmpty line)) || (((List.take 1 (List.drop 0 line)) == ("\n".toList)) || ((List.take 1 (List.drop 0 line)) == (";".toList)))) then
      (parseFileLoop file xs database direction label line_number_next record_cls state)
    else
      if ((List.take 1 (List.drop 0 line)) == ("[".toList)) then
        Option.elim (P0f.Gen.parseSection line) (Except.error (LoadErr.parsing line_number)) (fun r0_1 =>
        let u4_0 := r0_1
        let record_cls := u4_0.1
        let direction := u4_0.2
        let database := (Db.createKD database record_cls direction)
        let state := PState.needLabel
        (parseFileLoop file xs database direction label line_number_next (some record_cls) state))
      else
        let u4_3 := (partition '=' line)
        let parameter := u4_3.1
        let value := u4_3.2.2
        let parameter := (strip parameter)
        let value := (strip value)
        Sum.elim (fun r => r) (fun (j4 : Db × PState × (Option DbLabel)) =>
          let database := j4.1
          let state := j4.2.1
          let label := j4.2.2
          (parseFileLoop file xs database direction label line_number_next record_cls state))
          ((if (parameter == ("sig".toList)) then
            Option.elim record_cls (
              (Sum.inl (Except.error (LoadErr.parsing line_number)))) (fun record_cls =>
              if (state != PState.needSig) then
                (Sum.inl (Except.error (LoadErr.parsing line_number)))
              else
                Option.elim (P0f.Gen.parseSigFor record_cls value) (Sum.inl (Except.error (LoadErr.parsing line_number))) (fun r0_2 =>
                let record := ({ label := label, sig := r0_2, raw := value, line := line_number } : DbRec)
                Option.elim (Db.addKD database record_cls direction record) (Sum.inl (Except.error LoadErr.database)) (fun r1_3 =>
                let database := r1_3
                (Sum.inr (database, state, label)))))
          else
            if (parameter == ("label".toList)) then
              Option.elim record_cls (
                (Sum.inl (Except.error (LoadErr.parsing line_number)))) (fun record_cls =>
                if (!((state == PState.needLabel) || (state == PState.needSig))) then
                  (Sum.inl (Except.error (LoadErr.parsing line_number)))
                else
                  let state := PState.needSig
                  Option.elim (P0f.Gen.parseLabelFor record_cls value) (Sum.inl (Except.error (LoadErr.parsing line_number))) (fun r0_4 =>
                  let label := r0_4
                  Sum.elim (fun r => (Sum.inl r)) (fun (state : PState) =>
                    (Sum.inr (database, state, (some label))))
                    ((if ((DbLabel.isOs label) && label.isUserApp) then
                      let state := PState.needSys
                      (Sum.inr (state))
                    else
                      (Sum.inr (state))) : Sum (Except LoadErr Db) (PState))))
            else
              Sum.elim (fun r => (Sum.inl r)) (fun (j7 : (Option DbLabel) × PState) =>
                let label := j7.1
                let state := j7.2
                (Sum.inr (database, state, label)))
                ((if (parameter == ("sys".toList)) then
                  if ((state != PState.needSys) || (!(Option.elim label false DbLabel.isOs))) then
                    (Sum.inl (Except.error (LoadErr.parsing line_number)))
                  else
                    let label : Option DbLabel := (Option.map (DbLabel.withSys (split ',' value)) label)
                    let state := PState.needSig
                    (Sum.inr (label, state))
                else
                  if (!((parameter == ("classes".toList)) || (parameter == ("ua_os".toList)))) then
                    (Sum.inl (Except.error (LoadErr.parsing line_number)))
                  else
                    (Sum.inr (label, state))) : Sum (Except LoadErr Db) ((Option DbLabel) × PState))) : Sum (Except LoadErr Db) (Db × PState × (Option DbLabel)))
end Ref

def dbOf : Except LoadErr PSt → Except LoadErr Db
  | .ok st => .ok st.db
  | .error e => .error e

theorem ref_parseFileLoop (file : List (List Char)) : ∀ (ls : List (List Char)) (n : Nat) (db : Db) (state : PState) (sec : Option Section)
    (label : Option DbLabel),
    Ref.parseFileLoop file ls db (sec.bind Section.dir) label n (sec.map Section.kind) state
      = dbOf (parseGo ls n { db := db, state := state, label := label, sec := sec }) := by
  intro ls
  induction ls with
  | nil => intros; rfl
  | cons raw ls ih =>
    intro n db state sec label
    unfold Ref.parseFileLoop parseGo stepLine
    have e1 : ("\n".toList) = ['\n'] := rfl
    have e2 : (";".toList) = [';'] := rfl
    have e3 : ("[".toList) = ['['] := rfl
    simp only [e1, e2, e3]
    cases hl : strip raw with
    | nil => simp [ih]
    | cons c t =>
      simp only [take1_cons]
      generalize strip (partition '=' (c :: t)).fst = param
      generalize strip (partition '=' (c :: t)).snd.snd = value
      pf_norm
      by_cases hsk : (c == ';' || c == '\n') = true
      · have hsk' : (c == '\n' || c == ';') = true := by rw [Bool.or_comm]; exact hsk
        simp only [hsk, hsk']; pf_norm; exact ih _ _ _ _ _
      · have hsk' : ¬ (c == '\n' || c == ';') = true := by rw [Bool.or_comm]; exact hsk
        simp only [hsk, hsk']; pf_norm
        by_cases hb : (c == '[') = true
        · simp only [hb, if_true, gen_parseSection]
          cases parseSection (c :: t) with
          | none => rfl
          | some s => simp only [Option.map_some, Option.elim_some, createKD_section]; exact ih _ _ _ (some s) _
        · simp only [hb, if_false]
          by_cases hsig : (param == "sig".toList) = true
          · simp only [hsig, if_true]
            cases sec with
            | none => cases state <;> rfl
            | some s =>
              simp only [Option.map_some, Option.elim_some, Option.bind_some, gen_parseSigFor, addKD_section]
              cases state <;> try rfl
              simp only [bne_self_eq_false, Bool.false_eq_true, if_false]
              cases parseSigFor s.kind value with
              | none => rfl
              | some sg =>
                simp only [Option.elim_some]
                cases hadd : db.add s { label := label, sig := sg, raw := value, line := n } with
                | ok db' => simp only [Sum.elim_inr]; exact ih _ _ _ (some s) _
                | error e => have := add_error _ _ _ _ hadd; subst this; rfl
          · simp only [hsig, if_false]
            by_cases hlab : (param == "label".toList) = true
            · simp only [hlab, if_true]
              cases sec with
              | none => rfl
              | some s =>
                simp only [Option.map_some, Option.elim_some, gen_parseLabelFor]
                by_cases hst : (state == PState.needLabel || state == PState.needSig) = true
                · simp only [hst, Bool.not_true, Bool.false_eq_true, if_false, if_true]
                  cases parseLabelFor s.kind value with
                  | none => rfl
                  | some lb =>
                    simp only [Option.elim_some]
                    cases lb with
                    | mtu nm => simp only [DbLabel.isOs, DbLabel.isUserApp, Bool.false_and, Bool.false_eq_true, if_false, Sum.elim_inr]; exact ih _ _ _ (some s) _
                    | os l sy =>
                      simp only [DbLabel.isOs, DbLabel.isUserApp, Bool.true_and]
                      by_cases hu : l.isUserApp = true
                      · simp only [hu]; pf_norm; exact ih _ _ _ (some s) _
                      · simp only [hu]; pf_norm; exact ih _ _ _ (some s) _
                · simp only [hst, Bool.not_false, if_true, if_false]; rfl
            · simp only [hlab, if_false]
              by_cases hsys : (param == "sys".toList) = true
              · simp only [hsys, if_true]
                cases state <;> try (cases label <;> rfl)
                cases label with
                | none => rfl
                | some lb =>
                  cases lb with
                  | mtu nm => rfl
                  | os l sy =>
                    simp only [bne_self_eq_false, Option.elim_some, DbLabel.isOs, Bool.not_true, Bool.or_self, Bool.false_eq_true, if_false,
                      Sum.elim_inr, Option.map_some, DbLabel.withSys]
                    exact ih _ _ _ _ _
              · simp only [hsys, if_false, isSkippedParam]
                by_cases hskp : (param == "classes".toList || param == "ua_os".toList) = true
                · simp only [hskp, Bool.not_true, Bool.false_eq_true, if_false, if_true, Sum.elim_inr]; exact ih _ _ _ _ _
                · simp only [hskp, Bool.not_false, if_true, if_false]; rfl

theorem ref_parseFile (ls : List (List Char)) :
    Ref.parseFileLoop ls ls Db.empty none none 1 none PState.needSection = parseLines ls := by
  have := ref_parseFileLoop ls ls 1 Db.empty PState.needSection none none
  simp only [Option.bind_none, Option.map_none] at this
  rw [this]
  rfl

/-- stage 1: the printed `_parse_file` of the working tree against the frozen copy of its loop, started the way the pinned source
    starts it.  Three ways this is shown: the generated file is the fallback alias (then it is the model's function and
    `ref_parseFile` applies); the printed loop agrees with the copy argument for argument (by `rfl`, or by unfolding + congruence
    + case analysis on the optional values when the source was rewritten); or the source counts lines from 0 and increments first
    (`line_number = 0 … line_number += 1`), i.e. its counter is one behind the copy's. -/
theorem gen_eq_ref (ls : List (List Char)) :
    Gen.parseFileLines ls = Ref.parseFileLoop ls ls Db.empty none none 1 none PState.needSection := by
  first
  | (rw [ref_parseFile]; exact rfl)
  | (have h : ∀ (l : List (List Char)) (db : Db) (dir : Option Dir) (label : Option DbLabel) (n : Nat) (rc : Option RecKind) (state : PState),
         Gen.parseFileLines_loop0 ls l db dir label n rc state = Ref.parseFileLoop ls l db dir label n rc state := by
       intro l
       induction l with
       | nil => intros; first | rfl | (unfold Gen.parseFileLines_loop0 Ref.parseFileLoop; rfl)
       | cons x xs ih =>
         intro db dir label n rc state
         unfold Gen.parseFileLines_loop0 Ref.parseFileLoop
         try simp only [ih]
         all_goals first
           | rfl
           | grind (splits := 80)
           | (simp only [elim_eq_match]; grind (splits := 400) [Sum.elim_inl, Sum.elim_inr])
           | (cases state <;> simp only [elim_eq_match] <;> grind (splits := 400) [Sum.elim_inl, Sum.elim_inr])
     simp only [Gen.parseFileLines, h]
     done)
  | (have h : ∀ (l : List (List Char)) (db : Db) (dir : Option Dir) (label : Option DbLabel) (n : Nat) (rc : Option RecKind) (state : PState),
         Gen.parseFileLines_loop0 ls l db dir label n rc state = Ref.parseFileLoop ls l db dir label (n + 1) rc state := by
       intro l
       induction l with
       | nil => intros; first | rfl | (unfold Gen.parseFileLines_loop0 Ref.parseFileLoop; rfl)
       | cons x xs ih =>
         intro db dir label n rc state
         unfold Gen.parseFileLines_loop0 Ref.parseFileLoop
         try simp only [ih]
         all_goals first
           | rfl
           | grind (splits := 80)
           | (simp only [elim_eq_match]; grind (splits := 400) [Sum.elim_inl, Sum.elim_inr])
           | (cases state <;> simp only [elim_eq_match] <;> grind (splits := 400) [Sum.elim_inl, Sum.elim_inr])
     simp only [Gen.parseFileLines, h, Nat.zero_add]
     done)

/-- `_parse_file` as printed from the source = the model's line loop: for every sequence of lines, the same record store or
    the same error, line number included (C09: what a load denotes; C10: which errors can leave it; C11: nothing is kept of a
    failed load, since the value is only returned at the end) -/
theorem gen_parseFileLines (ls : List (List Char)) : Gen.parseFileLines ls = parseLines ls := by
  rw [gen_eq_ref, ref_parseFile]

end P0f
