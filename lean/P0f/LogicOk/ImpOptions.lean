import P0f.LogicOk.Impersonate
import P0f.Generated.Logic.ImpersonateOptions
/-
  `_impersonate_options` (C05, C14) against the source text: the option list the impersonator builds from the signature's layout,
  the base packet's hints and the drawn values.
-/
namespace P0f

/-- the `tcp_type` of `_impersonate_options` as the code computes it (mask, then the ack+ / ack- adjustment) = the model's -/
theorem codeTcpType_eq : ∀ (nz z : Bool) (f : Nat), f < 512 →
    (if nz then (f &&& (2 ||| 16)) ^^^ ((f &&& (2 ||| 16)) &&& 16) else if z then (f &&& (2 ||| 16)) ||| 16 else f &&& (2 ||| 16))
      = (let t := (if bit f F_SYN then F_SYN else 0) + (if bit f F_ACK then F_ACK else 0)
         if nz then clearBit t F_ACK else if z then setBit t F_ACK else t) := by
  unfold setBit clearBit bit F_SYN F_ACK
  decide +kernel


/-- the hint tests as the code spells them (`h is not None and lo <= h <= hi`, on an int-or-None hint) against the model's `inRange` -/
theorem inRange_le_le (lo hi : Int) (h : Option Int) :
    (Option.isSome h && ((Option.elim h false fun y => decide (lo ≤ y)) && (Option.elim h false fun x => decide (x ≤ hi))))
      = (inRange lo hi h).isSome ∧ (∀ n, inRange lo hi h = some n → Int.toNat (Option.getD h 0) = n) := by
  cases h with
  | none => simp [inRange]
  | some v =>
    by_cases hv : lo ≤ v ∧ v ≤ hi
    · simp [inRange, hv]
    · have : ¬ (lo ≤ v ∧ v ≤ hi) := hv
      simp only [inRange, this, if_false, Option.isSome_none, Option.isSome_some, Option.elim_some, Bool.true_and]
      refine ⟨?_, by intro n hn; cases hn⟩
      by_cases h1 : lo ≤ v
      · have h2 : ¬ v ≤ hi := fun h2 => hv ⟨h1, h2⟩
        simp [h1, h2]
      · simp [h1]

theorem inRange_lt_lt (lo hi : Int) (h : Option Int) :
    (Option.isSome h && ((Option.elim h false fun y => decide (lo < y)) && (Option.elim h false fun x => decide (x < hi))))
      = (inRange (lo + 1) (hi - 1) h).isSome ∧ (∀ n, inRange (lo + 1) (hi - 1) h = some n → Int.toNat (Option.getD h 0) = n) := by
  have := inRange_le_le (lo + 1) (hi - 1) h
  have e1 : ∀ y : Int, decide (lo < y) = decide (lo + 1 ≤ y) := fun y => by simp [Int.add_one_le_iff]
  have e2 : ∀ x : Int, decide (x < hi) = decide (x ≤ hi - 1) := fun x => by simp [Int.le_sub_one_iff]
  simp only [e1, e2]
  exact this

theorem inRange_le_lt (lo hi : Int) (h : Option Int) :
    (Option.isSome h && ((Option.elim h false fun y => decide (lo ≤ y)) && (Option.elim h false fun x => decide (x < hi))))
      = (inRange lo (hi - 1) h).isSome ∧ (∀ n, inRange lo (hi - 1) h = some n → Int.toNat (Option.getD h 0) = n) := by
  have := inRange_le_le lo (hi - 1) h
  have e2 : ∀ x : Int, decide (x < hi) = decide (x ≤ hi - 1) := fun x => by simp [Int.le_sub_one_iff]
  simp only [e2]
  exact this


theorem elim_eq_match'' {α β : Type} (o : Option α) (e : β) (f : α → β) :
    o.elim e f = (match o with | none => e | some v => f v) := by cases o <;> rfl

theorem none_or_not (h : Option Int) (p q : Bool) : (h.isNone || !(p && q)) = !(h.isSome && (p && q)) := by
  cases h <;> simp

/-- own timestamp: zero if the signature says so, else a usable `uptime`, else a usable hint, else the drawn value -/
theorem ts1_code (zero : Bool) (uptime hint : Option Int) (r : Nat) :
    ((if zero = true then some (((0 : Nat) : Int))
      else if (uptime.isSome && ((uptime.elim false fun y => decide (0 < y)) && uptime.elim false fun x => decide (x < 4294967296))) = true then uptime
      else if (hint.isNone || !((hint.elim false fun y => decide (0 < y)) && hint.elim false fun x => decide (x < 4294967296))) = true then some ((r : Nat) : Int)
      else hint).getD 0).toNat
      = (if zero = true then 0
         else match inRange 1 4294967295 uptime with
           | some u => u
           | none => match inRange 1 4294967295 hint with
             | some h => h
             | none => r) := by
  cases zero
  · simp only [Bool.false_eq_true, if_false, none_or_not]
    obtain ⟨u1, u2⟩ := inRange_lt_lt 0 4294967296 uptime
    obtain ⟨h1, h2⟩ := inRange_lt_lt 0 4294967296 hint
    have e1 : ((0 : Int) + 1) = 1 := rfl
    have e2 : ((4294967296 : Int) - 1) = 4294967295 := rfl
    rw [e1, e2] at u1 u2 h1 h2
    simp only [u1, h1]
    cases hu : inRange 1 4294967295 uptime with
    | some u => simp only [Option.isSome_some, if_true]; exact u2 u hu
    | none =>
      simp only [Option.isSome_none, Bool.false_eq_true, if_false]
      cases hh : inRange 1 4294967295 hint with
      | some h => simp only [Option.isSome_some, Bool.not_true, Bool.false_eq_true, if_false]; exact h2 h hh
      | none => simp
  · simp

/-- peer timestamp on a SYN: zero without `ts2+`, else a usable non-zero hint, else the drawn value -/
theorem ts2_syn_code (nz : Bool) (hint : Option Int) (r : Nat) :
    ((if (!nz) = true then some (((0 : Nat) : Int))
      else if (hint.isNone || !((hint.elim false fun y => decide (0 < y)) && hint.elim false fun x => decide (x < 4294967296))) = true then some ((r : Nat) : Int)
      else hint).getD 0).toNat
      = (if (!nz) = true then 0
         else match inRange 1 4294967295 hint with
           | some h => h
           | none => r) := by
  cases nz
  · simp
  · simp only [Bool.not_true, Bool.false_eq_true, if_false, none_or_not]
    obtain ⟨h1, h2⟩ := inRange_lt_lt 0 4294967296 hint
    have e1 : ((0 : Int) + 1) = 1 := rfl
    have e2 : ((4294967296 : Int) - 1) = 4294967295 := rfl
    rw [e1, e2] at h1 h2
    simp only [h1]
    cases hh : inRange 1 4294967295 hint with
    | some h => simp only [Option.isSome_some, Bool.not_true, Bool.false_eq_true, if_false]; exact h2 h hh
    | none => simp

/-- peer timestamp on a SYN+ACK: the hint if it is a 32-bit value, else zero -/
theorem ts2_ack_code (hint : Option Int) :
    ((if (hint.isNone || !((hint.elim false fun y => decide (0 ≤ y)) && hint.elim false fun x => decide (x < 4294967296))) = true then some (((0 : Nat) : Int))
      else hint).getD 0).toNat
      = (match inRange 0 4294967295 hint with
           | some h => h
           | none => 0) := by
  simp only [none_or_not]
  obtain ⟨h1, h2⟩ := inRange_le_lt 0 4294967296 hint
  have e2 : ((4294967296 : Int) - 1) = 4294967295 := rfl
  rw [e2] at h1 h2
  simp only [h1]
  cases hh : inRange 0 4294967295 hint with
  | some h => simp only [Option.isSome_some, Bool.not_true, Bool.false_eq_true, if_false]; exact h2 h hh
  | none => simp

theorem mssBounds_code (s : Sig) :
    (if (s.wtype == WinType.mss) = true then ((100 : Int), Int.fdiv 65535 ((s.wsize : Nat) : Int)) else ((0 : Int), (65535 : Int))) = mssBounds s := by
  unfold mssBounds
  have : Int.fdiv 65535 ((s.wsize : Nat) : Int) = 65535 / ((s.wsize : Nat) : Int) := Int.fdiv_eq_ediv_of_nonneg _ (by omega)
  rw [this]

/-! ### stage-1 reference: a frozen copy of the printed layout loop (as generated from the pinned source); the printed loop of the
    working tree is first shown equal to it (by `rfl`, or by unfolding + congruence + `grind` when the source was rewritten) -/
namespace Ref
open P0f
def impOptionsLoop (s : Sig) (b : Base) (uptime : Option Int) (c : Choices) (tcp_type : Nat) : List Nat → (List SOpt) → (List (Nat × Nat)) → List SOpt
  | [], options, rnd_stream =>
    (alignOptions options)
  | option :: xs, options, rnd_stream =>
    let rnd := (List.headD rnd_stream (0, 0))
    let rnd_stream : List (Nat × Nat) := (List.tail rnd_stream)
    let impersonated_option : Option SOpt := (none : Option SOpt)
    Sum.elim (fun r => r) (fun (j2 : (Option SOpt) × (List SOpt)) =>
      let impersonated_option := j2.1
      let options := j2.2
      Option.elim impersonated_option (
        (impOptionsLoop s b uptime c tcp_type xs options rnd_stream)) (fun impersonated_option =>
        let options := options ++ [impersonated_option]
        (impOptionsLoop s b uptime c tcp_type xs options rnd_stream)))
      ((if (option == 2) then
        let j4 : Int × Int :=
          if (s.wtype == WinType.mss) then
            let u6_0 := (100, (Int.fdiv (65535 : Int) ((s.wsize : Nat) : Int)))
            let min_mss : Int := (u6_0.1 : Int)
            let max_mss : Int := u6_0.2
            (min_mss, max_mss)
          else
            let u6_0 := (0, 65535)
            let min_mss : Int := (u6_0.1 : Int)
            let max_mss : Int := (u6_0.2 : Int)
            (min_mss, max_mss)
        let min_mss := j4.1
        let max_mss := j4.2
        if ((optInt s.mss) == (-1)) then
          let impersonated_option : (Option SOpt) :=
            if ((Option.isSome b.mssHint) && ((Option.elim b.mssHint false (fun y => (decide (min_mss ≤ y)))) && (Option.elim b.mssHint false (fun x => (decide (x ≤ max_mss)))))) then
              let impersonated_option := (SOpt.mss (Int.toNat (Option.getD b.mssHint 0)))
              ((some impersonated_option))
            else
              let impersonated_option := (SOpt.mss rnd.1)
              ((some impersonated_option))
          (Sum.inr (impersonated_option, options))
        else
          let impersonated_option := (SOpt.mss (Int.toNat (optInt s.mss)))
          (Sum.inr ((some impersonated_option), options))
      else
        if (option == 3) then
          let impersonated_option : (Option SOpt) :=
            if ((optInt s.scale) == (-1)) then
              let max_window_scale : Int := (256 : Int)
              if (QSet.subsetOf (QSet.ofList [.exws]) s.quirks) then
                let impersonated_option : (Option SOpt) :=
                  if ((Option.isSome b.wsHint) && ((Option.elim b.wsHint false (fun y => (decide ((14 : Int) < y)))) && (Option.elim b.wsHint false (fun x => (decide (x < max_window_scale)))))) then
                    let impersonated_option := (SOpt.ws (Int.toNat (Option.getD b.wsHint 0)))
                    ((some impersonated_option))
                  else
                    let impersonated_option := (SOpt.ws rnd.1)
                    ((some impersonated_option))
                (impersonated_option)
              else
                let impersonated_option : (Option SOpt) :=
                  if ((Option.isSome b.wsHint) && ((Option.elim b.wsHint false (fun y => (decide ((0 : Int) ≤ y)))) && (Option.elim b.wsHint false (fun x => (decide (x ≤ (14 : Int))))))) then
                    let impersonated_option := (SOpt.ws (Int.toNat (Option.getD b.wsHint 0)))
                    ((some impersonated_option))
                  else
                    let impersonated_option := (SOpt.ws rnd.1)
                    ((some impersonated_option))
                (impersonated_option)
            else
              let impersonated_option := (SOpt.ws (Int.toNat (optInt s.scale)))
              ((some impersonated_option))
          (Sum.inr (impersonated_option, options))
        else
          Sum.elim (fun r => (Sum.inl r)) (fun (j5 : (Option SOpt) × (List SOpt)) =>
            let impersonated_option := j5.1
            let options := j5.2
            (Sum.inr (impersonated_option, options)))
            ((if (option == 8) then
              let max_ts : Int := (4294967296 : Int)
              let u7_3 := (b.ts1Hint, b.ts2Hint)
              let ts1 := u7_3.1
              let ts2 := u7_3.2
              let ts1 : (Option Int) :=
                if (QSet.subsetOf (QSet.ofList [.zeroTs1]) s.quirks) then
                  let ts1 : Nat := 0
                  ((some ts1))
                else
                  if ((Option.isSome uptime) && ((Option.elim uptime false (fun y => (decide ((0 : Int) < y)))) && (Option.elim uptime false (fun x => (decide (x < max_ts)))))) then
                    let ts1 : Option Int := uptime
                    (ts1)
                  else
                    let ts1 : (Option Int) :=
                      if ((Option.isNone ts1) || (!((Option.elim ts1 false (fun y => (decide ((0 : Int) < y)))) && (Option.elim ts1 false (fun x => (decide (x < max_ts))))))) then
                        let ts1 : Nat := rnd.1
                        ((some ts1))
                      else
                        (ts1)
                    (ts1)
              let ts2 : (Option Int) :=
                if (tcp_type == 2) then
                  if (!(QSet.subsetOf (QSet.ofList [.nzTs2]) s.quirks)) then
                    let ts2 : Nat := 0
                    ((some ts2))
                  else
                    let ts2 : (Option Int) :=
                      if ((Option.isNone ts2) || (!((Option.elim ts2 false (fun y => (decide ((0 : Int) < y)))) && (Option.elim ts2 false (fun x => (decide (x < max_ts))))))) then
                        let ts2 : Nat := rnd.2
                        ((some ts2))
                      else
                        (ts2)
                    (ts2)
                else
                  if ((Option.isNone ts2) || (!((Option.elim ts2 false (fun y => (decide ((0 : Int) ≤ y)))) && (Option.elim ts2 false (fun x => (decide (x < max_ts))))))) then
                    let ts2 : Nat := 0
                    ((some ts2))
                  else
                    (ts2)
              let impersonated_option := (SOpt.ts (Int.toNat (Option.getD ts1 0)) (Int.toNat (Option.getD ts2 0)))
              (Sum.inr ((some impersonated_option), options))
            else
              if (option == 1) then
                let impersonated_option := SOpt.nop
                (Sum.inr ((some impersonated_option), options))
              else
                Sum.elim (fun r => (Sum.inl r)) (fun (j8 : (Option SOpt) × (List SOpt)) =>
                  let impersonated_option := j8.1
                  let options := j8.2
                  (Sum.inr (impersonated_option, options)))
                  ((if (option == 4) then
                    let impersonated_option := SOpt.sackok
                    (Sum.inr ((some impersonated_option), options))
                  else
                    if (option == 0) then
                      let padding := (if (QSet.subsetOf (QSet.ofList [.eolNz]) s.quirks) then SOpt.nop else SOpt.eol)
                      let options := options ++ [SOpt.eol]
                      let options := options ++ List.replicate s.eolPad padding
                      (Sum.inl (alignOptions options))
                    else
                      let impersonated_option : (Option SOpt) :=
                        if (option == 5) then
                          let impersonated_option := (SOpt.sack 8)
                          ((some impersonated_option))
                        else
                          let impersonated_option := (SOpt.raw option 0)
                          ((some impersonated_option))
                      (Sum.inr (impersonated_option, options))) : Sum (List SOpt) ((Option SOpt) × (List SOpt)))) : Sum (List SOpt) ((Option SOpt) × (List SOpt)))) : Sum (List SOpt) ((Option SOpt) × (List SOpt)))
end Ref

/-- appending one option and going on = the model's `[o] ++ rest` -/
theorem step_one (s : Sig) (b : Base) (uptime : Option Int) (c : Choices) (ks : List Nat)
    (ih : ∀ (options : List SOpt) (cs : List (Nat × Nat)),
      Ref.impOptionsLoop s b uptime c (impTcpType s b) ks options cs = alignOptions (options ++ impOptionsGo s b uptime ks cs))
    (options : List SOpt) (cs : List (Nat × Nat)) (o : SOpt) :
    Ref.impOptionsLoop s b uptime c (impTcpType s b) ks (options ++ [o]) cs
      = alignOptions (options ++ ([o] ++ impOptionsGo s b uptime ks cs)) := by
  rw [ih]; simp [List.append_assoc]

theorem ref_impOptionsLoop (s : Sig) (b : Base) (uptime : Option Int) (c : Choices) :
    ∀ (ks : List Nat) (options : List SOpt) (cs : List (Nat × Nat)),
      Ref.impOptionsLoop s b uptime c (impTcpType s b) ks options cs = alignOptions (options ++ impOptionsGo s b uptime ks cs) := by
  intro ks
  induction ks with
  | nil => intro options cs; unfold Ref.impOptionsLoop impOptionsGo; simp
  | cons k ks ih =>
    intro options cs
    have one := step_one s b uptime c ks ih
    unfold Ref.impOptionsLoop impOptionsGo impOption
    simp only [subsetOf_single]
    by_cases h2 : k = 2
    · subst h2
      simp only [beq_self_eq_true, if_true, mssBounds_code]
      cases hm : s.mss with
      | some m =>
        have e : ((optInt (some m)) == -1) = false := by simp [optInt]
        simp only [e, Bool.false_eq_true, if_false, Sum.elim_inr, Option.elim_some, optInt, Int.toNat_natCast]
        exact one _ _ _
      | none =>
        have e : ((optInt none) == -1) = true := by simp [optInt]
        simp only [e, if_true, Sum.elim_inr]
        obtain ⟨lo, hi⟩ := mssBounds s
        obtain ⟨h1, h2⟩ := inRange_le_le lo hi b.mssHint
        simp only [h1]
        cases hr : inRange lo hi b.mssHint with
        | none => simp only [Option.isSome_none, Bool.false_eq_true, if_false, Option.elim_some]; exact one _ _ _
        | some n => simp only [Option.isSome_some, if_true, Option.elim_some, h2 n hr]; exact one _ _ _
    · have e2 : (k == 2) = false := by simpa using h2
      simp only [e2, Bool.false_eq_true, if_false]
      by_cases h3 : k = 3
      · subst h3
        simp only [beq_self_eq_true, if_true]
        cases hw : s.scale with
        | some w =>
          have e : ((optInt (some w)) == -1) = false := by simp [optInt]
          simp only [e, Bool.false_eq_true, if_false, Sum.elim_inr, Option.elim_some, optInt, Int.toNat_natCast]
          exact one _ _ _
        | none =>
          have e : ((optInt none) == -1) = true := by simp [optInt]
          simp only [e, if_true]
          by_cases hx : s.quirks .exws = true
          · simp only [hx, if_true]
            obtain ⟨h1, h2⟩ := inRange_lt_lt 14 256 b.wsHint
            simp only [h1]
            have e15 : ((14 : Int) + 1) = 15 := rfl
            have e255 : ((256 : Int) - 1) = 255 := rfl
            rw [e15, e255] at h2 ⊢
            cases hr : inRange 15 255 b.wsHint with
            | none => simp only [Option.isSome_none, Bool.false_eq_true, if_false, Sum.elim_inr, Option.elim_some]; exact one _ _ _
            | some n => simp only [Option.isSome_some, if_true, Sum.elim_inr, Option.elim_some, h2 n hr]; exact one _ _ _
          · have hx' : s.quirks .exws = false := by simpa using hx
            simp only [hx', Bool.false_eq_true, if_false]
            obtain ⟨h1, h2⟩ := inRange_le_le 0 14 b.wsHint
            simp only [h1]
            cases hr : inRange 0 14 b.wsHint with
            | none => simp only [Option.isSome_none, Bool.false_eq_true, if_false, Sum.elim_inr, Option.elim_some]; exact one _ _ _
            | some n => simp only [Option.isSome_some, if_true, Sum.elim_inr, Option.elim_some, h2 n hr]; exact one _ _ _
      · have e3 : (k == 3) = false := by simpa using h3
        simp only [e3, Bool.false_eq_true, if_false]
        by_cases h8 : k = 8
        · subst h8
          simp only [beq_self_eq_true, if_true, Sum.elim_inr, Option.elim_some, Bool.false_eq_true, if_false]
          have hsyn : (impTcpType s b == 2) = (impTcpType s b == F_SYN) := rfl
          rw [hsyn]
          by_cases ht : (impTcpType s b == F_SYN) = true
          · simp only [ht, if_true, ts1_code, ts2_syn_code]
            exact one _ _ _
          · simp only [ht, Bool.false_eq_true, if_false, ts1_code, ts2_ack_code]
            exact one _ _ _
        · have e8 : (k == 8) = false := by simpa using h8
          simp only [e8, Bool.false_eq_true, if_false, Sum.elim_inr]
          by_cases h1 : k = 1
          · subst h1
            simp only [beq_self_eq_true, if_true, Sum.elim_inr, Option.elim_some, Bool.false_eq_true, if_false]
            exact one _ _ _
          · have e1 : (k == 1) = false := by simpa using h1
            simp only [e1, Bool.false_eq_true, if_false]
            by_cases h4 : k = 4
            · subst h4
              simp only [beq_self_eq_true, if_true, Sum.elim_inr, Option.elim_some, Bool.false_eq_true, if_false]
              exact one _ _ _
            · have e4 : (k == 4) = false := by simpa using h4
              simp only [e4, Bool.false_eq_true, if_false]
              by_cases h0 : k = 0
              · subst h0
                simp only [beq_self_eq_true, if_true, Sum.elim_inl, List.append_assoc, List.singleton_append]
              · have e0 : (k == 0) = false := by simpa using h0
                simp only [e0, Bool.false_eq_true, if_false]
                by_cases h5 : k = 5
                · subst h5
                  simp only [beq_self_eq_true, if_true, Sum.elim_inr, Option.elim_some, Bool.false_eq_true, if_false]
                  exact one _ _ _
                · have e5 : (k == 5) = false := by simpa using h5
                  simp only [e5, Bool.false_eq_true, if_false, Sum.elim_inr, Option.elim_some]
                  exact one _ _ _

/-- the printed layout loop of the working tree = the model's `impOptionsGo` -/
theorem gen_impOptionsLoop (s : Sig) (b : Base) (uptime : Option Int) (c : Choices) :
    ∀ (ks : List Nat) (options : List SOpt) (cs : List (Nat × Nat)),
      Gen.impOptions_loop0 s b uptime c (impTcpType s b) ks options cs = alignOptions (options ++ impOptionsGo s b uptime ks cs) := by
  first
  | (intro ks options cs; exact rfl)
  | (have h : ∀ (t : Nat) (ks : List Nat) (options : List SOpt) (cs : List (Nat × Nat)),
         Gen.impOptions_loop0 s b uptime c t ks options cs = Ref.impOptionsLoop s b uptime c t ks options cs := by
       intro t ks
       induction ks with
       | nil => intros; first | rfl | (unfold Gen.impOptions_loop0 Ref.impOptionsLoop; rfl)
       | cons k ks ih =>
         intros
         unfold Gen.impOptions_loop0 Ref.impOptionsLoop
         try simp only [ih]
         all_goals first
           | rfl
           | grind (splits := 120)
           | (simp only [elim_eq_match'']; grind (splits := 400) [Sum.elim_inl, Sum.elim_inr])
     intro ks options cs
     rw [h]
     exact ref_impOptionsLoop s b uptime c ks options cs)

/-- `_impersonate_options` as printed from the source = the model's: for every signature, base packet (hints), `uptime` and drawn
    values, the same list of option tuples - fixed values override hints, admissible hints are used, inadmissible ones replaced
    (C14), the layout, EOL padding and `ts1-` / `ts2+` / `exws` / `opt+` quirks of the signature reproduced (C05) -/
theorem gen_impOptions (s : Sig) (b : Base) (uptime : Option Int) (c : Choices) (hf : b.flags < 512) :
    Gen.impOptions s b uptime c = impOptions s b uptime c := by
  first
  | exact rfl
  | (unfold Gen.impOptions impOptions
     simp only [subsetOf_single]
     rw [codeTcpType_eq _ _ _ hf]
     have := gen_impOptionsLoop s b uptime c s.layout [] c.opt
     unfold impTcpType at this
     simp only [List.nil_append] at this
     exact this)

end P0f
