import P0f.LogicOk.Prelude
import P0f.Model.WireFields
import P0f.Generated.Logic.TcpOptionsParse
/-
  `TCPOptions.parse` (the TCP option walk; C03, C04, C18 and through them C05) against the source text.

  Two stages, so that the long proof does not depend on the shape of what the translator prints today:
  `P0f.Ref.parseOpts` is a frozen copy of the definition the translator printed from the pinned source (two `while`
  loops as fuel-recursive definitions, `break` / `continue`, the struct table, all in Python's index arithmetic);
  `ref_parseOpts` proves it equal to the model's list-recursive `parseOpts` for every byte string - including that the
  fuel `len(buffer) + 1` is always enough, i.e. the loop of the source terminates; `gen_parseOpts` compares what the
  translator prints from the working tree with the frozen copy (by induction on the fuel), or holds by `rfl` when the
  function left the translator's fragment and the generated file is an alias of the model.
-/
set_option linter.unusedVariables false
namespace P0f.Ref
open P0f

def parseOpts_while1 (buf : List Nat) (is_syn : Bool) (eol_padding_length : Int) (layout : List Nat) (mss : Nat) (option_number : Nat) (options_end : Nat) (quirks : QSet) (timestamp : Nat) (window_scale : Nat) : Nat → Int → Option (Int)
  | 0, i => none
  | fuel + 1, i =>
    if ((decide (i < ((options_end : Nat) : Int))) && (!((List.getD buf (Int.toNat i) 0) != 0))) then
      let i : Int := (i + (1 : Int))
      (parseOpts_while1 buf is_syn eol_padding_length layout mss option_number options_end quirks timestamp window_scale fuel i)
    else
      (some (i))
def parseOpts_while0 (buf : List Nat) (is_syn : Bool) (options_end : Nat) : Nat → (List Nat) → Int → Int → QSet → Nat → Nat → Nat → Option ((List Nat) × Int × Int × QSet × Nat × Nat × Nat)
  | 0, layout, i, eol_padding_length, quirks, mss, window_scale, timestamp => none
  | fuel + 1, layout, i, eol_padding_length, quirks, mss, window_scale, timestamp =>
    if (decide (i < ((options_end : Nat) : Int))) then
      let option_number : Nat := (List.getD buf (Int.toNat i) 0)
      let layout := layout ++ [option_number]
      let i : Int := (i + (1 : Int))
      if (option_number == 0) then
        let eol_padding_length : Int := (((options_end : Nat) : Int) - i)
        let w4_2 : Int := Option.getD (parseOpts_while1 buf is_syn eol_padding_length layout mss option_number options_end quirks timestamp window_scale (buf.length + 1) i) (i)
        let i := w4_2
        let quirks : QSet :=
          if (i != ((options_end : Nat) : Int)) then
            let quirks := (QSet.union quirks (QSet.ofList [.eolNz]))
            (quirks)
          else
            (quirks)
        (some (layout, i, eol_padding_length, quirks, mss, window_scale, timestamp))
      else
        if (option_number == 1) then
          (parseOpts_while0 buf is_syn options_end fuel layout i eol_padding_length quirks mss window_scale timestamp)
        else
          if (i == ((options_end : Nat) : Int)) then
            let quirks := (QSet.union quirks (QSet.ofList [.bad]))
            (some (layout, i, eol_padding_length, quirks, mss, window_scale, timestamp))
          else
            let option_length : Nat := (List.getD buf (Int.toNat i) 0)
            let current_option_end : Int := ((i - (1 : Int)) + ((option_length : Nat) : Int))
            let i : Int := (i + (1 : Int))
            if (decide (current_option_end > ((options_end : Nat) : Int))) then
              let quirks := (QSet.union quirks (QSet.ofList [.bad]))
              (some (layout, i, eol_padding_length, quirks, mss, window_scale, timestamp))
            else
              if (decide (option_length < 2)) then
                let quirks := (QSet.union quirks (QSet.ofList [.bad]))
                (some (layout, i, eol_padding_length, quirks, mss, window_scale, timestamp))
              else
                Sum.elim (fun r => r) (fun (j8 : QSet × Nat × Nat × Nat) =>
                  let quirks := j8.1
                  let mss := j8.2.1
                  let window_scale := j8.2.2.1
                  let timestamp := j8.2.2.2
                  let i : Int := current_option_end
                  (parseOpts_while0 buf is_syn options_end fuel layout i eol_padding_length quirks mss window_scale timestamp))
                  ((if (option_number == 5) then
                    if (!((decide (10 ≤ option_length)) && (decide (option_length ≤ 34)))) then
                      let quirks := (QSet.union quirks (QSet.ofList [.bad]))
                      (Sum.inl (some (layout, i, eol_padding_length, quirks, mss, window_scale, timestamp)))
                    else
                      (Sum.inr (quirks, mss, window_scale, timestamp))
                  else
                    if ((option_number == 2) || (option_number == 3) || (option_number == 4) || (option_number == 8)) then
                      let j11 : QSet × Nat × Nat × Nat :=
                        if (option_length != (2 + (if option_number == 2 then 2 else (if option_number == 3 then 1 else (if option_number == 4 then 0 else (if option_number == 8 then 8 else 0)))))) then
                          let quirks := (QSet.union quirks (QSet.ofList [.bad]))
                          (quirks, mss, window_scale, timestamp)
                        else
                          if (option_number == 2) then
                            let mss : Nat := (if option_number == 2 then (be16 (List.drop 0 (List.take ((Int.toNat current_option_end) - (Int.toNat i)) (List.drop (Int.toNat i) buf)))) else (if option_number == 3 then (List.getD (List.drop 0 (List.take ((Int.toNat current_option_end) - (Int.toNat i)) (List.drop (Int.toNat i) buf))) 0 0) else (if option_number == 8 then (be32 (List.drop 0 (List.take ((Int.toNat current_option_end) - (Int.toNat i)) (List.drop (Int.toNat i) buf)))) else 0)))
                            (quirks, mss, window_scale, timestamp)
                          else
                            let j14 : Nat × QSet × Nat :=
                              if (option_number == 3) then
                                let window_scale : Nat := (if option_number == 2 then (be16 (List.drop 0 (List.take ((Int.toNat current_option_end) - (Int.toNat i)) (List.drop (Int.toNat i) buf)))) else (if option_number == 3 then (List.getD (List.drop 0 (List.take ((Int.toNat current_option_end) - (Int.toNat i)) (List.drop (Int.toNat i) buf))) 0 0) else (if option_number == 8 then (be32 (List.drop 0 (List.take ((Int.toNat current_option_end) - (Int.toNat i)) (List.drop (Int.toNat i) buf)))) else 0)))
                                if (decide (window_scale > 14)) then
                                  let quirks := (QSet.union quirks (QSet.ofList [.exws]))
                                  (window_scale, quirks, timestamp)
                                else
                                  (window_scale, quirks, timestamp)
                              else
                                if (option_number == 8) then
                                  let timestamp := (if option_number == 2 then (be16 (List.drop 0 (List.take ((Int.toNat current_option_end) - (Int.toNat i)) (List.drop (Int.toNat i) buf)))) else (if option_number == 3 then (List.getD (List.drop 0 (List.take ((Int.toNat current_option_end) - (Int.toNat i)) (List.drop (Int.toNat i) buf))) 0 0) else (if option_number == 8 then (be32 (List.drop 0 (List.take ((Int.toNat current_option_end) - (Int.toNat i)) (List.drop (Int.toNat i) buf)))) else 0)))
                                  let timestamp2 := (if option_number == 8 then (be32 (List.drop 4 (List.take ((Int.toNat current_option_end) - (Int.toNat i)) (List.drop (Int.toNat i) buf)))) else 0)
                                  let quirks : QSet :=
                                    if (!(timestamp != 0)) then
                                      let quirks := (QSet.union quirks (QSet.ofList [.zeroTs1]))
                                      (quirks)
                                    else
                                      (quirks)
                                  let quirks : QSet :=
                                    if ((timestamp2 != 0) && is_syn) then
                                      let quirks := (QSet.union quirks (QSet.ofList [.nzTs2]))
                                      (quirks)
                                    else
                                      (quirks)
                                  (window_scale, quirks, timestamp)
                                else
                                  (window_scale, quirks, timestamp)
                            let window_scale := j14.1
                            let quirks := j14.2.1
                            let timestamp := j14.2.2
                            (quirks, mss, window_scale, timestamp)
                      let quirks := j11.1
                      let mss := j11.2.1
                      let window_scale := j11.2.2.1
                      let timestamp := j11.2.2.2
                      (Sum.inr (quirks, mss, window_scale, timestamp))
                    else
                      if (!((decide (2 ≤ option_length)) && (decide (option_length ≤ 40)))) then
                        let quirks := (QSet.union quirks (QSet.ofList [.bad]))
                        (Sum.inl (some (layout, i, eol_padding_length, quirks, mss, window_scale, timestamp)))
                      else
                        (Sum.inr (quirks, mss, window_scale, timestamp))) : Sum (Option ((List Nat) × Int × Int × QSet × Nat × Nat × Nat)) (QSet × Nat × Nat × Nat))
    else
      (some (layout, i, eol_padding_length, quirks, mss, window_scale, timestamp))
def parseOpts (buf : List Nat) (is_syn : Bool) : List Nat × QSet × Nat × Nat × Nat × Int :=
  let layout : List Nat := []
  let quirks := QSet.empty
  let mss : Nat := 0
  let timestamp : Nat := 0
  let window_scale : Nat := 0
  let eol_padding_length : Int := (0 : Int)
  let i : Int := (0 : Int)
  let options_end : Nat := (List.length buf)
  let w1_1 : (List Nat) × Int × Int × QSet × Nat × Nat × Nat := Option.getD (parseOpts_while0 buf is_syn options_end (buf.length + 1) layout i eol_padding_length quirks mss window_scale timestamp) (layout, i, eol_padding_length, quirks, mss, window_scale, timestamp)
  let layout := w1_1.1
  let i := w1_1.2.1
  let eol_padding_length := w1_1.2.2.1
  let quirks := w1_1.2.2.2.1
  let mss := w1_1.2.2.2.2.1
  let window_scale := w1_1.2.2.2.2.2.1
  let timestamp := w1_1.2.2.2.2.2.2
  (layout, quirks, mss, timestamp, window_scale, eol_padding_length)


end P0f.Ref

namespace P0f

theorem insert_eq_union (a : QSet) (q : Quirk) : a.insert q = a.union (QSet.ofList [q]) := by
  funext x; simp [QSet.insert, QSet.union, QSet.ofList]
  cases a x <;> simp <;> (cases x <;> cases q <;> rfl)

/-- the zero scan after an EOL: from any index, with enough fuel, it stops at an index that is the end of the buffer
    exactly when no non-zero byte follows -/
theorem while1_spec (buf : List Nat) (syn : Bool) (e : Int) (l : List Nat) (m k n : Nat) (q : QSet) (t w : Nat)
    (fuel i : Nat) (hi : i ≤ buf.length) (hf : buf.length - i < fuel) :
    ∃ i' : Nat, Ref.parseOpts_while1 buf syn e l m k buf.length q t w fuel (i : Int) = some (i' : Int) ∧
      ((i' : Int) != (buf.length : Int)) = (buf.drop i).any (· != 0) := by
  induction fuel generalizing i with
  | zero => omega
  | succ f ih =>
    unfold Ref.parseOpts_while1
    by_cases hlt : i < buf.length
    · have hd : buf.drop i = buf[i] :: buf.drop (i + 1) := List.drop_eq_getElem_cons hlt
      have hg : List.getD buf (Int.toNat (i : Int)) 0 = buf[i] := by
        simp [List.getD, hlt]
      by_cases hz : buf[i] = 0
      · have : (decide ((i : Int) < ((buf.length : Nat) : Int)) && !(List.getD buf (Int.toNat (i : Int)) 0 != 0)) = true := by
          rw [hg]; simp [hz]; omega
        rw [if_pos this]
        obtain ⟨i', h1, h2⟩ := ih (i + 1) (by omega) (by omega)
        refine ⟨i', ?_, ?_⟩
        · simpa using h1
        · rw [h2, hd]; simp [hz]
      · have : ¬ (decide ((i : Int) < ((buf.length : Nat) : Int)) && !(List.getD buf (Int.toNat (i : Int)) 0 != 0)) = true := by
          rw [hg]; simp [hz]
        rw [if_neg this]
        refine ⟨i, rfl, ?_⟩
        have hne : i ≠ buf.length := by omega
        have e1 : (((i : Nat) : Int) != ((buf.length : Nat) : Int)) = true := by simp [hne]
        have e2 : ((buf[i] :: List.drop (i + 1) buf).any fun x => x != 0) = true := by
          have h0 : (buf[i] != 0) = true := by simpa using hz
          rw [List.any_cons, h0]; rfl
        rw [e1, hd, e2]
    · have hi' : i = buf.length := by omega
      have : ¬ (decide ((i : Int) < ((buf.length : Nat) : Int)) && !(List.getD buf (Int.toNat (i : Int)) 0 != 0)) = true := by
        simp; omega
      rw [if_neg this]
      refine ⟨i, rfl, ?_⟩
      subst hi'; simp


theorem getD_toNat (buf : List Nat) (i : Nat) (h : i < buf.length) : List.getD buf (Int.toNat ((i : Nat) : Int)) 0 = buf[i] := by
  simp [List.getD, h]

/-- what the main loop returns, as the tuple of loop-carried variables, for a final state `f` and some final index -/
def carriedOf (f : Opts) (i' : Int) : List Nat × Int × Int × QSet × Nat × Nat × Nat :=
  (f.layout, i', (f.eolPad : Int), f.quirks, f.mss, f.ws, f.ts)

theorem while0_spec (buf : List Nat) (syn : Bool) (fuel : Nat) :
    ∀ (i : Nat) (o : Opts), i ≤ buf.length → buf.length - i < fuel →
    ∃ i' : Int, Ref.parseOpts_while0 buf syn buf.length fuel o.layout (i : Int) (o.eolPad : Int) o.quirks o.mss o.ws o.ts
      = some (carriedOf (parseOptsGo syn (buf.drop i) o) i') := by
  induction fuel with
  | zero => intro i o hi hf; omega
  | succ f ih =>
    intro i o hi hf
    unfold Ref.parseOpts_while0
    by_cases hlt : i < buf.length
    · have hd : buf.drop i = buf[i] :: buf.drop (i + 1) := List.drop_eq_getElem_cons hlt
      have hc : (decide (((i : Nat) : Int) < ((buf.length : Nat) : Int))) = true := by simp; omega
      rw [if_pos hc, hd]
      simp only [getD_toNat buf i hlt]
      generalize hk : buf[i] = k
      have hi1 : ((i : Nat) : Int) + (1 : Int) = ((i + 1 : Nat) : Int) := by omega
      simp only [hi1]
      by_cases h0 : k = 0
      · -- EOL
        subst h0
        conv => rhs; unfold parseOptsGo
        simp only [beq_self_eq_true, if_true]
        obtain ⟨i', h1, h2⟩ := while1_spec buf syn (((buf.length : Nat) : Int) - ((i + 1 : Nat) : Int)) (o.layout ++ [0]) o.mss 0 0 o.quirks o.ts o.ws
          (buf.length + 1) (i + 1) (by omega) (by omega)
        refine ⟨(i' : Int), ?_⟩
        rw [h1]
        simp only [Option.getD_some, h2]
        have hl : (((buf.length : Nat) : Int) - ((i + 1 : Nat) : Int)) = (((List.drop (i + 1) buf).length : Nat) : Int) := by
          simp only [List.length_drop]; omega
        rw [hl]
        cases hb : (List.drop (i + 1) buf).any (fun x => x != 0) <;>
          simp [carriedOf, Opts.addQuirkIf, Opts.addQuirk, Opts.setEolPad, Opts.pushKind, insert_eq_union]
      · have hk0 : (k == 0) = false := by simpa using h0
        conv => rhs; unfold parseOptsGo
        simp only [hk0, Bool.false_eq_true, if_false, h0]
        by_cases h1 : k = 1
        · -- NOP
          subst h1
          simp only [beq_self_eq_true, if_true]
          obtain ⟨i', hi'⟩ := ih (i + 1) (o.pushKind 1) (by omega) (by omega)
          exact ⟨i', by simpa [Opts.pushKind] using hi'⟩
        · have hk1 : (k == 1) = false := by simpa using h1
          simp only [hk1, Bool.false_eq_true, if_false, h1]
          by_cases hend : i + 1 = buf.length
          · -- no room for the length byte
            have hdr : buf.drop (i + 1) = [] := by rw [hend]; exact List.drop_length
            have c1 : (((i + 1 : Nat) : Int) == ((buf.length : Nat) : Int)) = true := by simp; omega
            rw [hdr]
            simp only [c1, if_true]
            exact ⟨((i + 1 : Nat) : Int), by simp [carriedOf, Opts.addQuirk, Opts.pushKind, insert_eq_union]⟩
          · have hlt2 : i + 1 < buf.length := by omega
            have hd2 : buf.drop (i + 1) = buf[i + 1] :: buf.drop (i + 2) := List.drop_eq_getElem_cons hlt2
            have c1 : (((i + 1 : Nat) : Int) == ((buf.length : Nat) : Int)) = false := by
              have : ((i + 1 : Nat) : Int) ≠ ((buf.length : Nat) : Int) := by omega
              exact beq_eq_false_iff_ne.mpr this
            rw [hd2]
            simp only [c1, Bool.false_eq_true, if_false, getD_toNat buf (i + 1) hlt2]
            generalize hln : buf[i + 1] = ln
            have hrl : (buf.drop (i + 2)).length = buf.length - (i + 2) := List.length_drop
            have e1 : ((i + 1 : Nat) : Int) - 1 + ((ln : Nat) : Int) = ((i + ln : Nat) : Int) := by omega
            have e2 : (((i + 1 : Nat) : Int) + 1).toNat = i + 2 := by omega
            have e3 : ((i + ln : Nat) : Int).toNat = i + ln := by omega
            simp only [e1, e2, e3, List.drop_zero]
            have e4 : i + ln - (i + 2) = ln - 2 := by omega
            simp only [e4]
            -- one recursive step: the loop continues at index i + ln with the updated fields
            have step : ∀ (Q : QSet) (M W T : Nat), 2 ≤ ln → i + ln ≤ buf.length →
                ∃ i', Ref.parseOpts_while0 buf syn buf.length f (o.layout ++ [k]) ((i + ln : Nat) : Int) (o.eolPad : Int) Q M W T
                  = some (carriedOf (parseOptsGo syn ((buf.drop (i + 2)).drop (ln - 2))
                      { layout := o.layout ++ [k], quirks := Q, mss := M, ts := T, ws := W, eolPad := o.eolPad }) i') := by
              intro Q M W T h2 hle
              have hdd : (buf.drop (i + 2)).drop (ln - 2) = buf.drop (i + ln) := by
                rw [List.drop_drop]; congr 1; omega
              rw [hdd]
              exact ih (i + ln) { layout := o.layout ++ [k], quirks := Q, mss := M, ts := T, ws := W, eolPad := o.eolPad } hle (by omega)
            by_cases hover : i + ln > buf.length
            · have c2 : decide (((i + ln : Nat) : Int) > ((buf.length : Nat) : Int)) = true := by simp; omega
              have m2 : ln > 2 + (buf.drop (i + 2)).length := by rw [hrl]; omega
              rw [if_pos c2, if_pos m2]
              exact ⟨((i + 1 : Nat) : Int) + 1, by simp [carriedOf, Opts.addQuirk, Opts.pushKind, insert_eq_union]⟩
            · have c2 : ¬ decide (((i + ln : Nat) : Int) > ((buf.length : Nat) : Int)) = true := by simp; omega
              have m2 : ¬ ln > 2 + (buf.drop (i + 2)).length := by rw [hrl]; omega
              rw [if_neg c2, if_neg m2]
              by_cases hshort : ln < 2
              · have c3 : decide (ln < 2) = true := by simpa using hshort
                rw [if_pos c3, if_pos hshort]
                exact ⟨((i + 1 : Nat) : Int) + 1, by simp [carriedOf, Opts.addQuirk, Opts.pushKind, insert_eq_union]⟩
              · have c3 : ¬ decide (ln < 2) = true := by simpa using hshort
                rw [if_neg c3, if_neg hshort]
                have h2 : 2 ≤ ln := by omega
                have hle : i + ln ≤ buf.length := by omega
                by_cases hk5 : k = 5
                · subst hk5
                  simp only [beq_self_eq_true, if_true]
                  by_cases hr : 10 ≤ ln ∧ ln ≤ 34
                  · have c4 : (!(decide (10 ≤ ln) && decide (ln ≤ 34))) = false := by simp [hr.1, hr.2]
                    simp only [c4, Bool.false_eq_true, if_false, Sum.elim_inr]
                    rw [if_neg (show ¬¬(10 ≤ ln ∧ ln ≤ 34) from fun h => h hr)]
                    obtain ⟨i', hi'⟩ := step o.quirks o.mss o.ws o.ts h2 hle
                    exact ⟨i', by simpa [Opts.pushKind] using hi'⟩
                  · have c4 : (!(decide (10 ≤ ln) && decide (ln ≤ 34))) = true := by
                      simp only [Bool.not_eq_true', Bool.and_eq_false_iff, decide_eq_false_iff_not]
                      by_cases h10 : 10 ≤ ln
                      · right; exact fun h => hr ⟨h10, h⟩
                      · left; exact h10
                    simp only [c4, if_true, Sum.elim_inl]
                    rw [if_pos hr]
                    exact ⟨((i + 1 : Nat) : Int) + 1, by simp [carriedOf, Opts.addQuirk, Opts.pushKind, insert_eq_union]⟩
                · have hk5' : (k == 5) = false := by simpa using hk5
                  simp only [hk5', Bool.false_eq_true, if_false, hk5]
                  generalize hbody : List.take (ln - 2) (List.drop (i + 2) buf) = body
                  by_cases hk2 : k = 2
                  · subst hk2
                    by_cases hl : ln = 4
                    · subst hl
                      obtain ⟨i', hi'⟩ := step o.quirks (be16 body) o.ws o.ts h2 hle
                      refine ⟨i', ?_⟩
                      simp [optSize, applyValue, Opts.pushKind, Opts.setMss]
                      simpa using hi'
                    · obtain ⟨i', hi'⟩ := step (o.quirks.union (QSet.ofList [Quirk.bad])) o.mss o.ws o.ts h2 hle
                      refine ⟨i', ?_⟩
                      simp [optSize, hl, Opts.pushKind, Opts.addQuirk, insert_eq_union]
                      simpa using hi'
                  · by_cases hk3 : k = 3
                    · subst hk3
                      by_cases hl : ln = 3
                      · subst hl
                        generalize hv : body.getD 0 0 = v
                        have hv' : body[0]?.getD 0 = v := by simpa using hv
                        by_cases hx : v > 14
                        · obtain ⟨i', hi'⟩ := step (o.quirks.union (QSet.ofList [Quirk.exws])) o.mss v o.ts h2 hle
                          refine ⟨i', ?_⟩
                          simp [optSize, applyValue, Opts.pushKind, Opts.setWs, Opts.addQuirkIf, Opts.addQuirk, insert_eq_union, hv', hx]
                          simpa using hi'
                        · obtain ⟨i', hi'⟩ := step o.quirks o.mss v o.ts h2 hle
                          refine ⟨i', ?_⟩
                          simp [optSize, applyValue, Opts.pushKind, Opts.setWs, Opts.addQuirkIf, Opts.addQuirk, insert_eq_union, hv', hx]
                          simpa using hi'
                      · obtain ⟨i', hi'⟩ := step (o.quirks.union (QSet.ofList [Quirk.bad])) o.mss o.ws o.ts h2 hle
                        refine ⟨i', ?_⟩
                        simp [optSize, hl, Opts.pushKind, Opts.addQuirk, insert_eq_union]
                        simpa using hi'
                    · by_cases hk4 : k = 4
                      · subst hk4
                        by_cases hl : ln = 2
                        · subst hl
                          obtain ⟨i', hi'⟩ := step o.quirks o.mss o.ws o.ts h2 hle
                          refine ⟨i', ?_⟩
                          simp [optSize, applyValue, Opts.pushKind]
                          simpa using hi'
                        · obtain ⟨i', hi'⟩ := step (o.quirks.union (QSet.ofList [Quirk.bad])) o.mss o.ws o.ts h2 hle
                          refine ⟨i', ?_⟩
                          simp [optSize, hl, Opts.pushKind, Opts.addQuirk, insert_eq_union]
                          simpa using hi'
                      · by_cases hk8 : k = 8
                        · subst hk8
                          by_cases hl : ln = 10
                          · subst hl
                            generalize hv1 : be32 body = t1
                            generalize hv2 : be32 (List.drop 4 body) = t2
                            by_cases hz1 : t1 = 0 <;> by_cases hz2 : (t2 != 0 && syn) = true
                            · obtain ⟨i', hi'⟩ := step ((o.quirks.union (QSet.ofList [Quirk.zeroTs1])).union (QSet.ofList [Quirk.nzTs2])) o.mss o.ws t1 h2 hle
                              refine ⟨i', ?_⟩
                              simp [optSize, applyValue, Opts.pushKind, Opts.setTs, Opts.addQuirkIf, Opts.addQuirk, insert_eq_union, hv1, hv2, hz1, hz2]
                              simpa [hz1] using hi'
                            · obtain ⟨i', hi'⟩ := step (o.quirks.union (QSet.ofList [Quirk.zeroTs1])) o.mss o.ws t1 h2 hle
                              refine ⟨i', ?_⟩
                              simp [optSize, applyValue, Opts.pushKind, Opts.setTs, Opts.addQuirkIf, Opts.addQuirk, insert_eq_union, hv1, hv2, hz1, hz2]
                              simpa [hz1] using hi'
                            · obtain ⟨i', hi'⟩ := step (o.quirks.union (QSet.ofList [Quirk.nzTs2])) o.mss o.ws t1 h2 hle
                              refine ⟨i', ?_⟩
                              simp [optSize, applyValue, Opts.pushKind, Opts.setTs, Opts.addQuirkIf, Opts.addQuirk, insert_eq_union, hv1, hv2, hz1, hz2]
                              simpa [hz1] using hi'
                            · obtain ⟨i', hi'⟩ := step o.quirks o.mss o.ws t1 h2 hle
                              refine ⟨i', ?_⟩
                              simp [optSize, applyValue, Opts.pushKind, Opts.setTs, Opts.addQuirkIf, Opts.addQuirk, insert_eq_union, hv1, hv2, hz1, hz2]
                              simpa [hz1] using hi'
                          · obtain ⟨i', hi'⟩ := step (o.quirks.union (QSet.ofList [Quirk.bad])) o.mss o.ws o.ts h2 hle
                            refine ⟨i', ?_⟩
                            simp [optSize, hl, Opts.pushKind, Opts.addQuirk, insert_eq_union]
                            simpa using hi'
                        · -- a kind unknown to p0f
                          have hfix : (k == 2 || k == 3 || k == 4 || k == 8) = false := by simp [hk2, hk3, hk4, hk8]
                          have hsz : optSize k = none := by simp [optSize, hk2, hk3, hk4, hk8]
                          simp only [hfix, Bool.false_eq_true, if_false, hsz]
                          by_cases hr : 2 ≤ ln ∧ ln ≤ 40
                          · have c4 : (!(decide (2 ≤ ln) && decide (ln ≤ 40))) = false := by simp [hr.1, hr.2]
                            simp only [c4, Bool.false_eq_true, if_false, Sum.elim_inr]
                            rw [if_neg (show ¬¬(2 ≤ ln ∧ ln ≤ 40) from fun h => h hr)]
                            obtain ⟨i', hi'⟩ := step o.quirks o.mss o.ws o.ts h2 hle
                            exact ⟨i', by simpa [Opts.pushKind] using hi'⟩
                          · have c4 : (!(decide (2 ≤ ln) && decide (ln ≤ 40))) = true := by
                              simp only [Bool.not_eq_true', Bool.and_eq_false_iff, decide_eq_false_iff_not]
                              right; exact fun h => hr ⟨h2, h⟩
                            simp only [c4, if_true, Sum.elim_inl]
                            rw [if_pos hr]
                            exact ⟨((i + 1 : Nat) : Int) + 1, by simp [carriedOf, Opts.addQuirk, Opts.pushKind, insert_eq_union]⟩
    · have hi' : i = buf.length := by omega
      have hc : ¬ (decide (((i : Nat) : Int) < ((buf.length : Nat) : Int))) = true := by simp; omega
      rw [if_neg hc]
      subst hi'
      simp only [List.drop_length, parseOptsGo]
      exact ⟨_, rfl⟩



/-- the frozen transcription of `TCPOptions.parse` = the model's option walk, for every byte string -/
theorem ref_parseOpts (buf : List Nat) (syn : Bool) : Ref.parseOpts buf syn = optsTuple (parseOpts buf syn) := by
  unfold Ref.parseOpts parseOpts
  obtain ⟨i', h⟩ := while0_spec buf syn (buf.length + 1) 0 Opts.init (by omega) (by omega)
  simp only [Opts.init, Int.natCast_zero, List.drop_zero] at h
  simp only [Opts.init, List.length, h, Option.getD_some, carriedOf, optsTuple]

/-- **`TCPOptions.parse` as printed from the working tree = the model's option walk** (C03, C04, C18), for every byte
    string and both values of `is_syn` -/
theorem gen_parseOpts (buf : List Nat) (syn : Bool) : Gen.parseOpts buf syn = optsTuple (parseOpts buf syn) := by
  first
  | exact rfl
  | (have h1 : ∀ (fuel : Nat) (e : Int) (l : List Nat) (m k n : Nat) (q : QSet) (t w : Nat) (i : Int),
         Gen.parseOpts_while1 buf syn e l m k n q t w fuel i = Ref.parseOpts_while1 buf syn e l m k n q t w fuel i := by
       intro fuel
       induction fuel with
       | zero => intros; rfl
       | succ f ih =>
         intros
         unfold Gen.parseOpts_while1 Ref.parseOpts_while1
         first
         | (simp only [ih]; done)
         | (simp only [ih]; grind)
     have h0 : ∀ (fuel : Nat) (n : Nat) (l : List Nat) (i e : Int) (q : QSet) (m w t : Nat),
         Gen.parseOpts_while0 buf syn n fuel l i e q m w t = Ref.parseOpts_while0 buf syn n fuel l i e q m w t := by
       intro fuel
       induction fuel with
       | zero => intros; rfl
       | succ f ih =>
         intros
         unfold Gen.parseOpts_while0 Ref.parseOpts_while0
         first
         | (simp only [ih, h1]; done)
         | (simp only [ih, h1]; grind (splits := 60))
     have : Gen.parseOpts buf syn = Ref.parseOpts buf syn := by
       unfold Gen.parseOpts Ref.parseOpts
       first
       | (simp only [h0]; done)
       | (simp only [h0]; grind)
     rw [this]; exact ref_parseOpts buf syn)

end P0f
