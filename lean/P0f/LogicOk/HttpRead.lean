import P0f.Model.Http
import P0f.Model.DbParse
import P0f.Props.C04Http
import P0f.Generated.Logic.ReadHeaders
import P0f.Generated.Logic.ReadFirstLine
import P0f.Generated.Logic.ReadPayload
import P0f.Generated.Logic.FingerprintHttp
import P0f.LogicOk.Http
import P0f.Model.Api
/-
  `read_headers` and `read_first_line` (C07, C04) against the source text, and `read_payload` composed from the printed parts.
-/
namespace P0f
open P0f.Py

/-- what is left of the header loop's outcome when the two error kinds are not told apart -/
def hdrsOf : Except HdrErr (List Hdr) → Option (List Hdr)
  | .ok h => some h
  | .error _ => none

theorem contains_sp_tab (c : Char) : List.contains (" \t".toList) c = (c == ' ' || c == '\t') := by
  have : (" \t".toList) = [' ', '\t'] := rfl
  rw [this]
  by_cases h1 : c = ' ' <;> by_cases h2 : c = '\t' <;> simp [List.contains_cons, h1, h2]

/-- the printed header loop = the model's, on lines none of which is empty (`line[0]` is an IndexError on an empty line in
    the code and in the model; the printed loop totalises it - extracted lines are never empty, `extractLines_nonempty`) -/
theorem gen_readHeadersLoop (lines : List Bytes) : ∀ (ls : List Bytes) (acc : List Hdr), (∀ l ∈ ls, l ≠ []) →
    Gen.readHeaders_loop0 lines ls acc = hdrsOf (readHeadersGo ls acc) := by
  intro ls
  induction ls with
  | nil => intros; first | rfl | (unfold Gen.readHeaders_loop0 readHeadersGo; rfl)
  | cons line rest ih =>
    intro acc hne
    have hrest : ∀ l ∈ rest, l ≠ [] := fun l hl => hne l (List.mem_cons_of_mem _ hl)
    have hline : line ≠ [] := hne line (List.mem_cons_self)
    first
    | (unfold Gen.readHeaders_loop0 readHeadersGo
       simp only [← ih _ hrest]
       rfl)
    | (unfold Gen.readHeaders_loop0 readHeadersGo
       cases line with
       | nil => exact absurd rfl hline
       | cons c t =>
         have e1 : ("\r\n".toList) = ['\r', '\n'] := rfl
         have e2 : (" ".toList) = [' '] := rfl
         simp only [contains_sp_tab, List.getD_cons_zero, e1, e2, Bool.not_not]
         by_cases hc : (c == ' ' || c == '\t') = true
         · simp only [hc, if_true]
           cases hacc : acc.getLast? with
           | none =>
             have : acc = [] := by simpa using hacc
             subst this
             rfl
           | some h =>
             have hne' : acc ≠ [] := by intro h0; subst h0; simp at hacc
             have hl : acc.getLastD default = h := by
               rw [List.getLastD_eq_getLast?, hacc]; rfl
             have hemp : acc.isEmpty = false := by
               cases acc with
               | nil => exact absurd rfl hne'
               | cons a b => rfl
             simp only [hemp, Bool.false_eq_true, if_false, Sum.elim_inr, hl, List.append_assoc, List.cons_append, List.nil_append]
             exact ih _ hrest
         · simp only [hc, Bool.false_eq_true, if_false]
           generalize partition ':' (c :: t) = pr
           obtain ⟨name, found, value⟩ := pr
           cases found with
           | false => rfl
           | true =>
             simp only [Bool.not_true, Bool.false_eq_true, if_false]
             cases hn : name.isEmpty with
             | true => rfl
             | false => simp only [Bool.false_eq_true, if_false, Sum.elim_inr]; exact ih _ hrest)

/-- `read_headers` as printed from the source = the model's header loop -/
theorem gen_readHeaders (ls : List Bytes) (hne : ∀ l ∈ ls, l ≠ []) : Gen.readHeaders ls = hdrsOf (readHeadersGo ls []) := by
  first
  | (unfold Gen.readHeaders; exact gen_readHeadersLoop ls ls [] hne)
  | exact rfl

/-- `read_first_line` as printed from the source = the model's -/
theorem gen_readFirstLine (line : Bytes) :
    Gen.readFirstLine line = (readFirstLine line).map fun r => (if r.1 then Dir.req else Dir.resp, r.2) := by
  first
  | exact rfl
  | (unfold Gen.readFirstLine readFirstLine
     simp only []
     cases h0 : (splitWs 2 line)[0]? with
     | none => rfl
     | some p0 =>
       simp only [Option.elim_some]
       by_cases hg : (p0 == "GET".toList || p0 == "HEAD".toList) = true
       · simp only [hg, if_true]
         cases (splitWs 2 line)[2]? with
         | none => rfl
         | some v => simp only [Option.elim_some, Sum.elim_inr]; cases minorVersion v <;> rfl
       · simp only [hg, Bool.false_eq_true, if_false, Option.elim_some, Sum.elim_inr]
         cases minorVersion p0 <;> rfl)
  | (-- another arrangement of the same tests (conditional expressions, a computed index): case analysis on the three optional values
     unfold Gen.readFirstLine readFirstLine
     simp only []
     generalize splitWs 2 line = parts
     cases h0 : parts[0]? with
     | none => simp [h0]
     | some p0 =>
       have eG : ("GET".toList) = ['G', 'E', 'T'] := rfl
       have eH : ("HEAD".toList) = ['H', 'E', 'A', 'D'] := rfl
       by_cases hp : p0 = ['G', 'E', 'T'] ∨ p0 = ['H', 'E', 'A', 'D']
       · cases h2 : parts[2]? with
         | none => simp [h0, h2, hp, eG, eH]
         | some v => cases hm : minorVersion v <;> simp [h0, h2, hp, hm, eG, eH]
       · cases hm : minorVersion p0 <;> simp [h0, hp, hm, eG, eH])

def readOutOpt : ReadOut → Option (Dir × Nat × List Hdr)
  | .ok r m hs => some (if r then Dir.req else Dir.resp, m, hs)
  | _ => none

/-- **C07 / C04 against the source text**: for EVERY byte string, `read_payload` as printed from the working tree (calling the
    printed `read_first_line` and `read_headers`; h11's line extraction bound to the model's `extractLines`) gives the model's
    result (direction, minor version, header list in wire order) or rejects exactly when the model rejects -/
theorem source_readPayload (data : Bytes) : Gen.readPayload data = readOutOpt (readPayload data) := by
  unfold readPayload
  first
  | (unfold Gen.readPayload
     simp only []
     cases he : extractLines data with
     | none => rfl
     | some ls =>
       cases ls with
       | nil => rfl
       | cons first rest =>
         have hne := extractLines_nonempty data _ he
         have hrest : ∀ l ∈ rest, l ≠ [] := fun l hl => hne l (List.mem_cons_of_mem _ hl)
         simp only [Option.elim_some, List.isEmpty_cons, Bool.false_eq_true, if_false, List.map_id', List.getD_cons_zero, List.drop_one,
           List.tail_cons, gen_readFirstLine, gen_readHeaders rest hrest]
         cases readFirstLine first with
         | none => rfl
         | some r =>
           obtain ⟨isReq, minor⟩ := r
           simp only [Option.map_some, Option.elim_some]
           cases hh : readHeadersGo rest [] with
           | ok hs => rfl
           | error e => cases e <;> rfl)
  | (unfold Gen.readPayload
     cases he : extractLines data with
     | none => rfl
     | some ls =>
       cases ls with
       | nil => rfl
       | cons first rest =>
         have hne := extractLines_nonempty data _ he
         have hrest : ∀ l ∈ rest, l ≠ [] := fun l hl => hne l (List.mem_cons_of_mem _ hl)
         simp only [gen_readFirstLine, gen_readHeaders rest hrest]
         cases readFirstLine first with
         | none => rfl
         | some r =>
           obtain ⟨isReq, minor⟩ := r
           simp only [Option.map_some, Option.bind_some]
           cases hh : readHeadersGo rest [] with
           | ok hs => rfl
           | error e => cases e <;> rfl)


/-- `fingerprint_http` as printed from the source (the printed `read_payload`, the printed search on the HTTP records of the
    message's direction, the printed `dishonest`) = the model's API function: PacketError for whatever the reader rejects - before the
    database is looked at -, DatabaseError for an unloaded database, else minor version, matched record and the dishonesty flag
    (C06, C04, C11) -/
theorem gen_fingerprintHttp (db : Db) (data : Bytes) :
    Gen.fingerprintHttp db data = (match apiFpHttp db data with | .ok r => .ok (r.2.1, r.2.2.1, r.2.2.2) | .error e => .error e) := by
  first
  | exact rfl
  | (unfold Gen.fingerprintHttp apiFpHttp
     rw [source_readPayload]
     cases hr : readPayload data with
     | ok isReq minor hs =>
       simp only [readOutOpt, Option.elim_some]
       cases isReq <;>
         (simp only [Bool.false_eq_true, if_false, if_true]
          cases hi : Db.iter db RecKind.http _ with
          | error e => rfl
          | ok l => simp only [Option.elim_some, gen_findHttpMatch, gen_dishonest])
     | packetError => rfl
     | indexError => rfl)

end P0f
