import P0f.Lemmas.Str
namespace P0f
open P0f.Py

theorem isDigit_ne {c d : Char} (h : c.isDigit = true) (hd : d.isDigit = false) : c ≠ d := by
  rintro rfl; simp [h] at hd

theorem natStr_not_mem (n : Nat) (d : Char) (hd : d.isDigit = false) : d ∉ natStr n := by
  intro h; exact isDigit_ne (natStr_digits n d h) hd rfl

theorem dumpOption_no_comma (pad k : Nat) : ',' ∉ dumpOption pad k := by
  unfold dumpOption optName
  have hn := fun n => natStr_not_mem n ',' (by decide)
  repeat' split
  all_goals simp [hn]

theorem dumpOption_ne_nil (pad k : Nat) : dumpOption pad k ≠ [] := by
  unfold dumpOption optName
  repeat' split
  all_goals simp

theorem startsWith_cons (c : Char) (s : List Char) : startsWith (c :: s) [c] = true := by
  simp [startsWith]

/-- printing one layout entry and parsing it back -/
theorem parseOptionItem_dump (pad k : Nat) (hk : k ≤ 255) (hp : pad ≤ 255) :
    parseOptionItem (dumpOption pad k) = some (k, if k = 0 then some pad else none) := by
  unfold dumpOption
  by_cases h0 : k = 0
  · subst h0
    have hnp := parseNumberN_natStr pad 0 255 (by omega) (by omega)
    simp [parseOptionItem, startsWith, hnp]
  · simp only [h0, ↓reduceIte]
    unfold optName
    by_cases h1 : k = 1; · subst h1; decide
    by_cases h2 : k = 2; · subst h2; decide
    by_cases h3 : k = 3; · subst h3; decide
    by_cases h4 : k = 4; · subst h4; decide
    by_cases h5 : k = 5; · subst h5; decide
    by_cases h8 : k = 8; · subst h8; decide
    have hnk := parseNumberN_natStr k 0 255 (by omega) (by omega)
    simp [h1, h2, h3, h4, h5, h8, parseOptionItem, startsWith, hnk]

theorem quirkOfName_str (q : Quirk) : quirkOfName q.str = some q := by cases q <;> decide
theorem quirk_str_no_comma (q : Quirk) : ',' ∉ q.str := by cases q <;> decide
theorem quirk_str_ne_nil (q : Quirk) : q.str ≠ [] := by cases q <;> decide

/-- `joinComma` of non-empty, comma-free items splits back into the items -/
theorem split_joinComma (items : List (List Char)) (hne : items ≠ [])
    (hc : ∀ l ∈ items, ',' ∉ l) : split ',' (joinComma items) = items := by
  unfold split joinComma
  exact List.splitOn_intercalate ',' hc hne

theorem joinComma_isEmpty (items : List (List Char)) (h : ∀ l ∈ items, l ≠ []) :
    (joinComma items).isEmpty = items.isEmpty := by
  unfold joinComma
  cases items with
  | nil => rfl
  | cons a t =>
    have ha : a ≠ [] := h a (by simp)
    cases a with
    | nil => exact absurd rfl ha
    | cons c r => cases t <;> simp [List.intercalate]

end P0f
