import P0f.Model.Impersonate
/-
  The 9-bit TCP flag word under `_impersonate_tcp`'s adjustments: every fact needed about it, by
  exhaustive kernel evaluation over all 512 flag values and all quirk combinations.
-/
namespace P0f

/-! ### flag words: everything about the 9 bits by exhaustive evaluation -/

theorem impFlagsB_table :
    (List.range 512).all (fun f => [true, false].all fun a => [true, false].all fun b => [true, false].all fun c =>
      [true, false].all fun d => [true, false].all fun e =>
        let o := impFlagsB a b c d e f
        decide (o < 512) && (bit o F_SYN == bit f F_SYN) && (bit o F_FIN == bit f F_FIN) && (bit o F_RST == bit f F_RST)
          && (bit o F_ACK == (if a then false else if b then true else bit f F_ACK))
          && (bit o F_URG == (if c then false else if d then true else bit f F_URG))
          && (bit o F_PSH == e) && (bit o F_ECE == false) && (bit o F_CWR == false) && (bit o F_NS == false)
          && ((tcpType o == F_SYN) == (bit o F_SYN && !bit o F_ACK && !bit o F_FIN && !bit o F_RST))) = true := by
  decide +kernel

theorem mem_bools (x : Bool) : x ∈ [true, false] := by cases x <;> simp

theorem impFlagsB_facts (f : Nat) (hf : f < 512) (a b c d e : Bool) :
    let o := impFlagsB a b c d e f
    o < 512 ∧ bit o F_SYN = bit f F_SYN ∧ bit o F_FIN = bit f F_FIN ∧ bit o F_RST = bit f F_RST ∧
      bit o F_ACK = (if a then false else if b then true else bit f F_ACK) ∧
      bit o F_URG = (if c then false else if d then true else bit f F_URG) ∧
      bit o F_PSH = e ∧ bit o F_ECE = false ∧ bit o F_CWR = false ∧ bit o F_NS = false ∧
      (tcpType o == F_SYN) = (bit o F_SYN && !bit o F_ACK && !bit o F_FIN && !bit o F_RST) := by
  have h := impFlagsB_table
  simp only [List.all_eq_true] at h
  have := h f (List.mem_range.mpr hf) a (mem_bools a) b (mem_bools b) c (mem_bools c) d (mem_bools d) e (mem_bools e)
  simp only [Bool.and_eq_true, beq_iff_eq, decide_eq_true_eq] at this
  obtain ⟨⟨⟨⟨⟨⟨⟨⟨⟨⟨h1, h2⟩, h3⟩, h4⟩, h5⟩, h6⟩, h7⟩, h8⟩, h9⟩, h10⟩, h11⟩ := this
  exact ⟨h1, h2, h3, h4, h5, h6, h7, h8, h9, h10, h11⟩

theorem impTcpType_table :
    (List.range 512).all (fun f => [true, false].all fun a => [true, false].all fun b =>
      let t := (if bit f F_SYN then F_SYN else 0) + (if bit f F_ACK then F_ACK else 0)
      let t' := if a then clearBit t F_ACK else if b then setBit t F_ACK else t
      ((t' == F_SYN) == (bit f F_SYN && !(if a then false else if b then true else bit f F_ACK)))) = true := by
  decide +kernel

/-- the type `_impersonate_options` reasons with is SYN exactly when the output has SYN set and ACK clear -/
theorem impTcpType_syn (s : Sig) (b : Base) (hf : b.flags < 512) :
    (impTcpType s b == F_SYN) =
      (bit b.flags F_SYN && !(if s.quirks .nzAck then false else if s.quirks .zeroAck then true else bit b.flags F_ACK)) := by
  have h := impTcpType_table
  simp only [List.all_eq_true] at h
  have := h b.flags (List.mem_range.mpr hf) (s.quirks .nzAck) (mem_bools _) (s.quirks .zeroAck) (mem_bools _)
  simp only [beq_iff_eq] at this
  unfold impTcpType
  exact this


theorem impIpFlagsB_table :
    (List.range 8).all (fun f => [true, false].all fun a => [true, false].all fun b =>
      let o := impIpFlagsB a b f
      decide (o < 8) && (bit o 2 == a) && (bit o 4 == b) && (bit o 1 == bit f 1)) = true := by
  decide +kernel

theorem impIpFlagsB_facts (f : Nat) (hf : f < 8) (a b : Bool) :
    impIpFlagsB a b f < 8 ∧ bit (impIpFlagsB a b f) 2 = a ∧ bit (impIpFlagsB a b f) 4 = b ∧
      bit (impIpFlagsB a b f) 1 = bit f 1 := by
  have h := impIpFlagsB_table
  simp only [List.all_eq_true] at h
  have := h f (List.mem_range.mpr hf) a (mem_bools a) b (mem_bools b)
  simp only [Bool.and_eq_true, beq_iff_eq, decide_eq_true_eq] at this
  obtain ⟨⟨⟨h1, h2⟩, h3⟩, h4⟩ := this
  exact ⟨h1, h2, h3, h4⟩

end P0f
