import P0f.Model.TcpOptions
namespace P0f

@[simp] theorem addQuirk_layout (o : Opts) (q : Quirk) : (o.addQuirk q).layout = o.layout := rfl
@[simp] theorem addQuirk_mss (o : Opts) (q : Quirk) : (o.addQuirk q).mss = o.mss := rfl
@[simp] theorem addQuirk_ts (o : Opts) (q : Quirk) : (o.addQuirk q).ts = o.ts := rfl
@[simp] theorem addQuirk_ws (o : Opts) (q : Quirk) : (o.addQuirk q).ws = o.ws := rfl
@[simp] theorem addQuirk_eolPad (o : Opts) (q : Quirk) : (o.addQuirk q).eolPad = o.eolPad := rfl

@[simp] theorem addQuirkIf_layout (o : Opts) (c : Bool) (q : Quirk) : (o.addQuirkIf c q).layout = o.layout := by
  unfold Opts.addQuirkIf; split <;> rfl
@[simp] theorem pushKind_layout (o : Opts) (k : Nat) : (o.pushKind k).layout = o.layout ++ [k] := rfl
@[simp] theorem setMss_layout (o : Opts) (v : Nat) : (o.setMss v).layout = o.layout := rfl
@[simp] theorem setWs_layout (o : Opts) (v : Nat) : (o.setWs v).layout = o.layout := rfl
@[simp] theorem setTs_layout (o : Opts) (v : Nat) : (o.setTs v).layout = o.layout := rfl
@[simp] theorem setEolPad_layout (o : Opts) (v : Nat) : (o.setEolPad v).layout = o.layout := rfl

@[simp] theorem applyValue_layout (s : Bool) (k : Nat) (b : List Nat) (o : Opts) :
    (applyValue s k b o).layout = o.layout := by
  unfold applyValue
  repeat' split
  all_goals simp

theorem applyValue_of_optSize_none (s : Bool) (k : Nat) (b : List Nat) (o : Opts) (h : optSize k = none) :
    applyValue s k b o = o := by
  unfold optSize at h
  unfold applyValue
  repeat' split at h
  all_goals simp_all

@[simp] theorem applyValue_five (s : Bool) (b : List Nat) (o : Opts) : applyValue s 5 b o = o := by
  simp [applyValue]

/-- the layout grows by at most one entry per byte still to read -/
theorem parseOptsGo_layout_le (isSyn : Bool) (l : List Nat) (o : Opts) :
    (parseOptsGo isSyn l o).layout.length ≤ o.layout.length + l.length := by
  fun_induction parseOptsGo isSyn l o <;> simp_all <;> omega

end P0f
