import P0f.Model.ScapyOpts
/-
  `TCPOptions.parse` on option bytes that were produced by encoding a list of option tuples
  (`encodeOpts`): the parser walks the list entry by entry.  Used for the MTU round trip (C08)
  and for the option part of C05.
-/
namespace P0f

/-- option kind as it appears in a layout -/
def SOpt.kind : SOpt → Nat
  | .eol => 0 | .nop => 1 | .mss _ => 2 | .ws _ => 3 | .sackok => 4 | .ts _ _ => 8 | .sack _ => 5 | .raw k _ => k

/-- the tuple encodes to a well-formed option: values fit their fields, SACK length 10..34,
    unknown kinds really unknown, length ≤ 40 -/
def SOpt.WF : SOpt → Prop
  | .eol => True
  | .nop => True
  | .mss v => v < 65536
  | .ws v => v < 256
  | .sackok => True
  | .ts a b => a < 4294967296 ∧ b < 4294967296
  | .sack n => 8 ≤ n ∧ n ≤ 32
  | .raw k n => k ≠ 0 ∧ k ≠ 1 ∧ k ≠ 2 ∧ k ≠ 3 ∧ k ≠ 4 ∧ k ≠ 5 ∧ k ≠ 8 ∧ n ≤ 38

/-- effect of one well-formed, non-EOL option on the parser state -/
def stepOpt (isSyn : Bool) (o : SOpt) (st : Opts) : Opts :=
  match o with
  | .eol => st
  | .nop => st.pushKind 1
  | .mss v => (st.pushKind 2).setMss v
  | .ws v => ((st.pushKind 3).setWs v).addQuirkIf (decide (v > 14)) .exws
  | .sackok => st.pushKind 4
  | .ts a b => (((st.pushKind 8).setTs a).addQuirkIf (a == 0) .zeroTs1).addQuirkIf (b != 0 && isSyn) .nzTs2
  | .sack _ => st.pushKind 5
  | .raw k _ => st.pushKind k

theorem be16_beBytes16 (v : Nat) (h : v < 65536) (rest : List Nat) : be16 (beBytes16 v ++ rest) = v := by
  simp only [beBytes16, be16, List.cons_append, List.nil_append, List.getD_cons_zero, List.getD_cons_succ]
  omega

theorem be32_beBytes32 (v : Nat) (h : v < 4294967296) (rest : List Nat) : be32 (beBytes32 v ++ rest) = v := by
  simp only [beBytes32, be32, List.cons_append, List.nil_append, List.getD_cons_zero, List.getD_cons_succ]
  omega

theorem drop_replicate_append (n : Nat) (rest : List Nat) : (List.replicate n 0 ++ rest).drop n = rest := by
  induction n with
  | zero => simp
  | succ k ih => simp [List.replicate_succ, ih]

/-- one well-formed non-EOL option at the head of the buffer is consumed exactly, with effect `stepOpt` -/
theorem parseOptsGo_encode_cons (isSyn : Bool) (o : SOpt) (hwf : o.WF) (hne : o ≠ .eol) (rest : List Nat) (st : Opts) :
    parseOptsGo isSyn (o.encode ++ rest) st = parseOptsGo isSyn rest (stepOpt isSyn o st) := by
  cases o with
  | eol => exact absurd rfl hne
  | nop =>
    simp only [SOpt.encode, List.cons_append, List.nil_append, stepOpt]
    rw [parseOptsGo.eq_def]; simp
  | mss v =>
    simp only [SOpt.WF] at hwf
    simp only [SOpt.encode, List.cons_append, stepOpt]
    rw [parseOptsGo]
    simp only [Nat.reduceEqDiff, ↓reduceIte, List.length_append, List.length_cons]
    have h1 : ¬ (4 > 2 + ((beBytes16 v ++ rest).length)) := by simp [beBytes16]; omega
    simp only [h1, ↓reduceIte, Nat.reduceLT, optSize, Nat.reduceAdd, ne_eq, not_true_eq_false, Nat.reduceSub]
    have hd : (beBytes16 v ++ rest).drop 2 = rest := by simp [beBytes16]
    have ht : be16 ((beBytes16 v ++ rest).take 2) = v := by
      simp only [beBytes16, List.cons_append, List.nil_append, List.take_succ_cons, List.take_zero, be16,
        List.getD_cons_zero, List.getD_cons_succ]
      omega
    simp [hd, applyValue, ht]
    intro hc
    simp [beBytes16] at hc
    omega
  | ws v =>
    simp only [SOpt.WF] at hwf
    simp only [SOpt.encode, List.cons_append, List.nil_append, stepOpt]
    rw [parseOptsGo]
    simp only [Nat.reduceEqDiff, ↓reduceIte, List.length_cons]
    have h1 : ¬ (3 > 2 + (rest.length + 1)) := by omega
    simp only [h1, ↓reduceIte, Nat.reduceLT, optSize, Nat.reduceAdd, ne_eq, not_true_eq_false, Nat.reduceSub]
    have hv : v % 256 = v := Nat.mod_eq_of_lt hwf
    simp [applyValue, hv]
  | sackok =>
    simp only [SOpt.encode, List.cons_append, List.nil_append, stepOpt]
    rw [parseOptsGo]
    simp only [Nat.reduceEqDiff, ↓reduceIte]
    have h1 : ¬ (2 > 2 + rest.length) := by omega
    simp [h1, optSize, applyValue]
  | ts a b =>
    simp only [SOpt.WF] at hwf
    simp only [SOpt.encode, List.cons_append, stepOpt]
    rw [parseOptsGo]
    simp only [Nat.reduceEqDiff, ↓reduceIte, List.length_append]
    have hl : (beBytes32 a ++ beBytes32 b ++ rest).length = 8 + rest.length := by simp [beBytes32]; omega
    have h1 : ¬ (10 > 2 + (beBytes32 a ++ beBytes32 b ++ rest).length) := by rw [hl]; omega
    simp only [h1, ↓reduceIte, Nat.reduceLT, optSize, Nat.reduceAdd, ne_eq, not_true_eq_false, Nat.reduceSub]
    have hd : (beBytes32 a ++ beBytes32 b ++ rest).drop 8 = rest := by simp [beBytes32]
    have ht : (beBytes32 a ++ beBytes32 b ++ rest).take 8 = beBytes32 a ++ beBytes32 b := by simp [beBytes32]
    have ha := be32_beBytes32 a hwf.1 (beBytes32 b)
    have hb : be32 ((beBytes32 a ++ beBytes32 b).drop 4) = b := by
      have : (beBytes32 a ++ beBytes32 b).drop 4 = beBytes32 b ++ [] := by simp [beBytes32]
      rw [this]; exact be32_beBytes32 b hwf.2 []
    simp only [List.append_assoc] at hd ht h1 ⊢
    simp [hd, ht, applyValue, ha, hb]
    intro hc
    simp [beBytes32] at hc
    omega
  | sack n =>
    simp only [SOpt.WF] at hwf
    simp only [SOpt.encode, List.cons_append, stepOpt]
    rw [parseOptsGo]
    simp only [Nat.reduceEqDiff, ↓reduceIte, List.length_append, List.length_replicate]
    have h1 : ¬ (2 + n > 2 + (n + rest.length)) := by omega
    have h2 : ¬ (2 + n < 2) := by omega
    have h3 : 10 ≤ 2 + n ∧ 2 + n ≤ 34 := by omega
    have hd : (List.replicate n 0 ++ rest).drop (2 + n - 2) = rest := by
      have : 2 + n - 2 = n := by omega
      rw [this]; exact drop_replicate_append n rest
    simp [h1, h2, h3, hd]
  | raw k n =>
    simp only [SOpt.WF] at hwf
    obtain ⟨k0, k1, k2, k3, k4, k5, k8, hn⟩ := hwf
    simp only [SOpt.encode, List.cons_append, stepOpt]
    rw [parseOptsGo]
    simp only [k0, k1, ↓reduceIte, List.length_append, List.length_replicate]
    have h1 : ¬ (2 + n > 2 + (n + rest.length)) := by omega
    have h2 : ¬ (2 + n < 2) := by omega
    have hos : optSize k = none := by simp [optSize, k2, k3, k4, k8]
    have h3 : 2 ≤ 2 + n ∧ 2 + n ≤ 40 := by omega
    have hd : (List.replicate n 0 ++ rest).drop (2 + n - 2) = rest := by
      have : 2 + n - 2 = n := by omega
      rw [this]; exact drop_replicate_append n rest
    simp [h1, h2, k5, hos, h3, hd]

/-- a run of well-formed non-EOL options is consumed entry by entry -/
theorem parseOptsGo_encode_list (isSyn : Bool) (l : List SOpt) (hwf : ∀ o ∈ l, o.WF) (hne : ∀ o ∈ l, o ≠ .eol)
    (rest : List Nat) (st : Opts) :
    parseOptsGo isSyn (l.flatMap SOpt.encode ++ rest) st = parseOptsGo isSyn rest (l.foldl (fun s o => stepOpt isSyn o s) st) := by
  induction l generalizing st with
  | nil => simp
  | cons o t ih =>
    simp only [List.flatMap_cons, List.append_assoc, List.foldl_cons]
    rw [parseOptsGo_encode_cons isSyn o (hwf o (by simp)) (hne o (by simp))]
    exact ih (fun x hx => hwf x (by simp [hx])) (fun x hx => hne x (by simp [hx])) _

/-- at an EOL byte the walk stops: the rest of the buffer is padding -/
theorem parseOptsGo_eol (isSyn : Bool) (rest : List Nat) (st : Opts) :
    parseOptsGo isSyn (0 :: rest) st =
      ((st.pushKind 0).setEolPad rest.length).addQuirkIf (rest.any (· != 0)) .eolNz := by
  rw [parseOptsGo.eq_def]; simp

theorem parseOptsGo_nil (isSyn : Bool) (st : Opts) : parseOptsGo isSyn [] st = st := by
  rw [parseOptsGo.eq_def]

/-! what the fold over `stepOpt` leaves in the fields -/

theorem foldl_stepOpt_layout (isSyn : Bool) (l : List SOpt) (hne : ∀ o ∈ l, o ≠ .eol) (st : Opts) :
    (l.foldl (fun s o => stepOpt isSyn o s) st).layout = st.layout ++ l.map SOpt.kind := by
  induction l generalizing st with
  | nil => simp
  | cons o t ih =>
    simp only [List.foldl_cons, List.map_cons]
    rw [ih (fun x hx => hne x (by simp [hx]))]
    have : (stepOpt isSyn o st).layout = st.layout ++ [o.kind] := by
      cases o with
      | eol => exact absurd rfl (hne _ (by simp))
      | ws v => simp only [stepOpt, Opts.addQuirkIf]; split <;> simp [Opts.addQuirk, Opts.setWs, Opts.pushKind, SOpt.kind]
      | ts a b =>
        simp only [stepOpt, Opts.addQuirkIf]
        split <;> split <;> simp [Opts.addQuirk, Opts.setTs, Opts.pushKind, SOpt.kind]
      | _ => simp [stepOpt, Opts.pushKind, Opts.setMss, SOpt.kind]
    rw [this]; simp

/-- does this option raise quirk `q` in the option walk -/
def raises (isSyn : Bool) (q : Quirk) (o : SOpt) : Bool :=
  match q, o with
  | .exws, .ws v => decide (v > 14)
  | .zeroTs1, .ts a _ => a == 0
  | .nzTs2, .ts _ b => b != 0 && isSyn
  | _, _ => false

theorem quirk_beq (a b : Quirk) : (a == b) = decide (a = b) := rfl

theorem stepOpt_quirks (isSyn : Bool) (o : SOpt) (st : Opts) (q : Quirk) :
    (stepOpt isSyn o st).quirks q = (st.quirks q || raises isSyn q o) := by
  cases o with
  | ws v =>
    simp only [stepOpt, Opts.addQuirkIf]
    split
    · rename_i h
      cases q <;> simp_all [quirk_beq, Opts.addQuirk, Opts.setWs, Opts.pushKind, QSet.insert, raises]
    · rename_i h
      cases q <;> simp_all [quirk_beq, Opts.setWs, Opts.pushKind, raises]
      intro h'; omega
  | ts a b =>
    simp only [stepOpt, Opts.addQuirkIf]
    split <;> split
    all_goals (rename_i h1 h2; cases q <;> simp_all [quirk_beq, Opts.addQuirk, Opts.setTs, Opts.pushKind, QSet.insert, raises])
  | _ => cases q <;> simp [stepOpt, Opts.pushKind, Opts.setMss, raises]

theorem foldl_stepOpt_quirks (isSyn : Bool) (l : List SOpt) (st : Opts) (q : Quirk) :
    (l.foldl (fun s o => stepOpt isSyn o s) st).quirks q = (st.quirks q || l.any (raises isSyn q)) := by
  induction l generalizing st with
  | nil => simp
  | cons o t ih => simp only [List.foldl_cons, ih, stepOpt_quirks, List.any_cons, Bool.or_assoc]

theorem stepOpt_eolPad (isSyn : Bool) (o : SOpt) (st : Opts) : (stepOpt isSyn o st).eolPad = st.eolPad := by
  cases o with
  | ws v => simp only [stepOpt, Opts.addQuirkIf]; split <;> simp [Opts.addQuirk, Opts.setWs, Opts.pushKind]
  | ts a b => simp only [stepOpt, Opts.addQuirkIf]; split <;> split <;> simp [Opts.addQuirk, Opts.setTs, Opts.pushKind]
  | _ => simp [stepOpt, Opts.pushKind, Opts.setMss]

theorem foldl_stepOpt_eolPad (isSyn : Bool) (l : List SOpt) (st : Opts) :
    (l.foldl (fun s o => stepOpt isSyn o s) st).eolPad = st.eolPad := by
  induction l generalizing st with
  | nil => rfl
  | cons o t ih => simp only [List.foldl_cons, ih, stepOpt_eolPad]

/-- the last MSS / window scale value of a list of option tuples -/
def lastMssOf (l : List SOpt) (d : Nat) : Nat := l.foldl (fun acc o => match o with | .mss v => v | _ => acc) d
def lastWsOf (l : List SOpt) (d : Nat) : Nat := l.foldl (fun acc o => match o with | .ws v => v | _ => acc) d

theorem stepOpt_mss' (isSyn : Bool) (o : SOpt) (st : Opts) :
    (stepOpt isSyn o st).mss = match o with | .mss v => v | _ => st.mss := by
  cases o with
  | ws v => simp only [stepOpt, Opts.addQuirkIf]; split <;> simp [Opts.addQuirk, Opts.setWs, Opts.pushKind]
  | ts a b => simp only [stepOpt, Opts.addQuirkIf]; split <;> split <;> simp [Opts.addQuirk, Opts.setTs, Opts.pushKind]
  | _ => simp [stepOpt, Opts.pushKind, Opts.setMss]

theorem stepOpt_ws' (isSyn : Bool) (o : SOpt) (st : Opts) :
    (stepOpt isSyn o st).ws = match o with | .ws v => v | _ => st.ws := by
  cases o with
  | ws v => simp only [stepOpt, Opts.addQuirkIf]; split <;> simp [Opts.addQuirk, Opts.setWs, Opts.pushKind]
  | ts a b => simp only [stepOpt, Opts.addQuirkIf]; split <;> split <;> simp [Opts.addQuirk, Opts.setTs, Opts.pushKind]
  | _ => simp [stepOpt, Opts.pushKind, Opts.setMss]

theorem foldl_stepOpt_mss' (isSyn : Bool) (l : List SOpt) (st : Opts) :
    (l.foldl (fun s o => stepOpt isSyn o s) st).mss = lastMssOf l st.mss := by
  induction l generalizing st with
  | nil => rfl
  | cons o t ih => simp only [List.foldl_cons, ih, lastMssOf, stepOpt_mss']

theorem foldl_stepOpt_ws' (isSyn : Bool) (l : List SOpt) (st : Opts) :
    (l.foldl (fun s o => stepOpt isSyn o s) st).ws = lastWsOf l st.ws := by
  induction l generalizing st with
  | nil => rfl
  | cons o t ih => simp only [List.foldl_cons, ih, lastWsOf, stepOpt_ws']

/-- if the list has an MSS entry, the last one is one of its MSS entries; else the default -/
theorem lastMssOf_mem (l : List SOpt) (d : Nat) :
    (SOpt.mss (lastMssOf l d) ∈ l) ∨ (lastMssOf l d = d ∧ ∀ v, SOpt.mss v ∉ l) := by
  induction l generalizing d with
  | nil => right; simp [lastMssOf]
  | cons o t ih =>
    simp only [lastMssOf, List.foldl_cons]
    cases o with
    | mss v =>
      rcases ih v with h | ⟨h1, h2⟩
      · left; simp only [lastMssOf] at h; simp [h]
      · left; simp only [lastMssOf] at h1; simp [h1]
    | _ =>
      rcases ih d with h | ⟨h1, h2⟩
      · left; simp only [lastMssOf] at h; simp [h]
      · right; simp only [lastMssOf] at h1; exact ⟨h1, by intro v hv; simp at hv; exact h2 v hv⟩

theorem lastWsOf_mem (l : List SOpt) (d : Nat) :
    (SOpt.ws (lastWsOf l d) ∈ l) ∨ (lastWsOf l d = d ∧ ∀ v, SOpt.ws v ∉ l) := by
  induction l generalizing d with
  | nil => right; simp [lastWsOf]
  | cons o t ih =>
    simp only [lastWsOf, List.foldl_cons]
    cases o with
    | ws v =>
      rcases ih v with h | ⟨h1, h2⟩
      · left; simp only [lastWsOf] at h; simp [h]
      · left; simp only [lastWsOf] at h1; simp [h1]
    | _ =>
      rcases ih d with h | ⟨h1, h2⟩
      · left; simp only [lastWsOf] at h; simp [h]
      · right; simp only [lastWsOf] at h1; exact ⟨h1, by intro v hv; simp at hv; exact h2 v hv⟩

end P0f
