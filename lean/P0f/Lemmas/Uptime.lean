import P0f.Spec.Uptime
namespace P0f

theorem validUptime_iff (frag : Bool) (flags : Nat) :
    validUptime frag (tcpType flags) = true ↔
      ¬ (frag = true ∨ ¬ (tcpType flags = F_SYN ∨ tcpType flags = F_SYN ||| F_ACK ∨ tcpType flags = F_ACK)) := by
  unfold validUptime shouldFingerprint
  generalize tcpType flags = t
  constructor
  · intro h
    simp only [Bool.and_eq_true, Bool.or_eq_true, beq_iff_eq, Bool.not_eq_true'] at h
    intro hc
    rcases hc with hc | hc
    · simp [hc] at h
    · exact hc (by rcases h.2 with (h2 | h2) | h2 <;> simp [h2])
  · intro h
    have hf : frag = false := by cases frag <;> simp_all
    have ht : t = F_SYN ∨ t = F_SYN ||| F_ACK ∨ t = F_ACK := by
      apply Classical.byContradiction; intro hn; exact h (Or.inr hn)
    subst hf
    rcases ht with rfl | rfl | rfl <;> decide

theorem tsDiff_eq_ticks (a b : Nat) (ha : a < TWO32) (hb : b < TWO32) : tsDiff a b = ticks a b := by
  unfold tsDiff ticks TWO32 at *
  omega

theorem ticks_lt (a b : Nat) : ticks a b < TWO32 := by
  unfold ticks TWO32; omega

theorem backward_iff (a b : Nat) : ticks a b > tsInv (ticks a b) ↔ backward a b := by
  have := ticks_lt a b
  unfold tsInv backward TWO32 at *
  omega

theorem tolerated_iff (o : UpOpts) (hD : o.Dom) (a b : Nat) (ms : Int) :
    (ms < o.grace ∧ ((tsInv (ticks a b) / 1000 : Nat) : Int) * o.maxScaleD * o.grace < o.maxScaleN)
      ↔ tolerated o a b ms := by
  unfold tolerated maxScaleQ tsInv
  generalize (TWO32 - 1 - ticks a b) / 1000 = k
  have hg : (0 : ℚ) < (o.grace : ℚ) := by exact_mod_cast (by have := hD.grace; omega : (0 : Int) < o.grace)
  have hd : (0 : ℚ) < (o.maxScaleD : ℚ) := by exact_mod_cast hD.maxD
  rw [lt_div_iff₀ hg, lt_div_iff₀ hd]
  have key : ((k : Int) * o.maxScaleD * o.grace < o.maxScaleN) ↔
      ((k : ℚ) * (o.grace : ℚ) * (o.maxScaleD : ℚ) < (o.maxScaleN : ℚ)) := by
    have e : (((k : Int) * o.maxScaleD * o.grace : Int) : ℚ) = (k : ℚ) * (o.grace : ℚ) * (o.maxScaleD : ℚ) := by
      push_cast; ring
    rw [← e]
    exact_mod_cast Iff.rfl
  rw [key]

theorem range_iff (o : UpOpts) (hD : o.Dom) (num : Nat) (ms : Int) (hms : 0 < ms) :
    (o.minScaleN * ms.toNat ≤ num * o.minScaleD ∧ num * o.maxScaleD ≤ o.maxScaleN * ms.toNat) ↔
      (minScaleQ o ≤ (num : ℚ) / (ms : ℚ) ∧ (num : ℚ) / (ms : ℚ) ≤ maxScaleQ o) := by
  unfold minScaleQ maxScaleQ
  have hms' : (0 : ℚ) < (ms : ℚ) := by exact_mod_cast hms
  have hmd : (0 : ℚ) < (o.minScaleD : ℚ) := by exact_mod_cast hD.minD
  have hxd : (0 : ℚ) < (o.maxScaleD : ℚ) := by exact_mod_cast hD.maxD
  have hcast : ((ms.toNat : Nat) : ℚ) = (ms : ℚ) := by
    have : ((ms.toNat : Nat) : Int) = ms := Int.toNat_of_nonneg (le_of_lt hms)
    exact_mod_cast congrArg (fun z : Int => (z : ℚ)) this
  rw [div_le_div_iff₀ hmd hms', div_le_div_iff₀ hms' hxd]
  constructor
  · rintro ⟨h1, h2⟩
    have h1' : ((o.minScaleN * ms.toNat : Nat) : ℚ) ≤ ((num * o.minScaleD : Nat) : ℚ) := by exact_mod_cast h1
    have h2' : ((num * o.maxScaleD : Nat) : ℚ) ≤ ((o.maxScaleN * ms.toNat : Nat) : ℚ) := by exact_mod_cast h2
    push_cast at h1' h2'
    rw [hcast] at h1' h2'
    exact ⟨h1', h2'⟩
  · rintro ⟨h1, h2⟩
    rw [← hcast] at h1 h2
    constructor
    · exact_mod_cast h1
    · exact_mod_cast h2

theorem floor_raw (num : Nat) (ms : Int) (hms : 0 < ms) :
    ⌊(num : ℚ) / (ms : ℚ)⌋.toNat = num / ms.toNat := by
  have hcast : (ms : ℚ) = ((ms.toNat : Nat) : ℚ) := by
    have : ((ms.toNat : Nat) : Int) = ms := Int.toNat_of_nonneg (le_of_lt hms)
    exact_mod_cast (congrArg (fun z : Int => (z : ℚ)) this).symm
  rw [hcast, Rat.floor_natCast_div_natCast]
  exact_mod_cast Int.toNat_natCast (num / ms.toNat)

end P0f
