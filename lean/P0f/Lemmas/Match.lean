import P0f.Model.Match
import P0f.Spec.Match
namespace P0f

theorem QSet.beq_iff (a b : QSet) : a.beq b = true ↔ ∀ q, a q = b q := by
  simp only [QSet.beq, List.all_eq_true, beq_iff_eq]
  exact ⟨fun h q => h q (Quirk.mem_all q), fun h q _ => h q⟩

theorem QSet.isEmpty_iff (a : QSet) : a.isEmpty = true ↔ ∀ q, a q = false := by
  simp only [QSet.isEmpty, List.all_eq_true, Bool.not_eq_true']
  exact ⟨fun h q => h q (Quirk.mem_all q), fun h q _ => h q⟩

theorem maskedQ_eq (s : Sig) (p : PSig) : maskedQ s p = effQ s p := by
  funext q
  unfold maskedQ effQ QSet.inter QSet.compl v4Only v6Only QSet.ofList
  cases h : s.ipVer.isNone <;> by_cases h4 : p.ipVer = 4 <;> cases q <;> simp [h4]

theorem quirkStep_exact (a b : QSet) : quirkStep a b = some .exact ↔ ∀ q, a q = b q := by
  unfold quirkStep
  by_cases h : a.beq b = true
  · simp [h]; exact (QSet.beq_iff a b).mp h
  · have hn : ¬ ∀ q, a q = b q := fun h' => h ((QSet.beq_iff a b).mpr h')
    simp only [hn, iff_false]
    simp only [Bool.not_eq_true] at h
    simp only [h, Bool.not_false, ite_true]
    split <;> simp

theorem not_isEmpty_iff (a : QSet) : (!a.isEmpty) = true ↔ ∃ q, a q = true := by
  constructor
  · intro h
    apply Classical.byContradiction
    intro hne
    have : a.isEmpty = true := (QSet.isEmpty_iff a).mpr (fun q => by
      cases hq : a q with
      | false => rfl
      | true => exact absurd ⟨q, hq⟩ hne)
    simp [this] at h
  · intro ⟨q, hq⟩
    cases h : a.isEmpty with
    | false => rfl
    | true => have := (QSet.isEmpty_iff a).mp h q; simp [hq] at this

theorem quirkStep_isSome (a b : QSet) : (quirkStep a b).isSome = true ↔
    (∀ q, a q = true → b q = false → (q = .df ∨ q = .nzId)) ∧
    (∀ q, a q = false → b q = true → (q = .zeroId ∨ q = .ecn)) := by
  unfold quirkStep
  by_cases h : a.beq b = true
  · have hb := (QSet.beq_iff a b).mp h
    simp only [h, Bool.not_true, Bool.false_eq_true, ↓reduceIte, Option.isSome_some, true_iff]
    constructor
    · intro q h1 h2; rw [hb] at h1; simp [h1] at h2
    · intro q h1 h2; rw [hb] at h1; simp [h1] at h2
  · simp only [Bool.not_eq_true] at h
    simp only [h, Bool.not_false, ite_true]
    by_cases hc : (!(((a.xor b).inter a).inter (QSet.ofList [.df, .nzId]).compl).isEmpty
        || !(((a.xor b).inter b).inter (QSet.ofList [.zeroId, .ecn]).compl).isEmpty) = true
    · simp only [hc, ite_true, Option.isSome_none, Bool.false_eq_true, false_iff]
      rw [Bool.or_eq_true, not_isEmpty_iff, not_isEmpty_iff] at hc
      intro ⟨h1, h2⟩
      rcases hc with ⟨q, hq⟩ | ⟨q, hq⟩
      · simp [QSet.inter, QSet.xor, QSet.compl, QSet.ofList] at hq
        have := h1 q
        grind
      · simp [QSet.inter, QSet.xor, QSet.compl, QSet.ofList] at hq
        have := h2 q
        grind
    · simp only [hc, Bool.false_eq_true, ↓reduceIte, Option.isSome_some, true_iff]
      simp only [Bool.not_eq_true, Bool.or_eq_false_iff] at hc
      obtain ⟨hc1, hc2⟩ := hc
      have e1 : ∀ q, (((a.xor b).inter a).inter (QSet.ofList [.df, .nzId]).compl) q = false := by
        have : (((a.xor b).inter a).inter (QSet.ofList [.df, .nzId]).compl).isEmpty = true := by
          simpa using hc1
        exact (QSet.isEmpty_iff _).mp this
      have e2 : ∀ q, (((a.xor b).inter b).inter (QSet.ofList [.zeroId, .ecn]).compl) q = false := by
        have : (((a.xor b).inter b).inter (QSet.ofList [.zeroId, .ecn]).compl).isEmpty = true := by
          simpa using hc2
        exact (QSet.isEmpty_iff _).mp this
      constructor
      · intro q h1 h2
        have := e1 q
        simp [QSet.inter, QSet.xor, QSet.compl, QSet.ofList, h1, h2] at this
        grind
      · intro q h1 h2
        have := e2 q
        simp [QSet.inter, QSet.xor, QSet.compl, QSet.ofList, h1, h2] at this
        grind

theorem quirkStep_ne_fuzzyTtl (a b : QSet) : quirkStep a b ≠ some .fuzzyTtl := by
  unfold quirkStep; split <;> (try split) <;> simp

theorem windowBad_iff (s : Sig) (p : PSig) : windowBad s p = false ↔ windowFits s p := by
  unfold windowBad windowFits
  cases s.wtype <;> simp <;> (try grind)

/-- boolean form of the fixed criteria, in source order -/
def fixedB (s : Sig) (p : PSig) : Bool :=
  s.layout == p.layout && !(s.ipVer.isSome && s.ipVer != some p.ipVer) &&
  !(s.eolPad != p.eolPad || (s.olen : Int) != p.olen) &&
  !(s.badTtl && s.ttl < p.ttl) &&
  !((s.mss.isSome && s.mss != some p.mss) || (s.scale.isSome && s.scale != some p.wscale)
          || (s.payClass.isSome && s.payClass != some p.hasPayload)) &&
  !windowBad s p

theorem fixedB_iff (s : Sig) (p : PSig) : fixedB s p = true ↔ fixedOk s p := by
  unfold fixedB fixedOk
  rw [← windowBad_iff]
  cases hv : s.ipVer <;> cases hm : s.mss <;> cases hs : s.scale <;> cases hp : s.payClass <;>
    simp <;> (try grind)

def ttlB (s : Sig) (p : PSig) (d : Int) : Bool :=
  s.badTtl || !(s.ttl < p.ttl || (s.ttl : Int) - p.ttl > d)

theorem ttlB_iff (s : Sig) (p : PSig) (d : Int) : ttlB s p d = true ↔ ttlWithin s p d := by
  unfold ttlB ttlWithin; simp

/-- the code, re-associated: result as a function of four booleans/options -/
theorem tcpMatch_eq_bool (s : Sig) (p : PSig) (d : Int) :
    tcpMatch s p d =
      if fixedB s p then
        match quirkStep (maskedQ s p) p.quirks with
        | none => none
        | some mt0 => if ttlB s p d then some mt0 else some .fuzzyTtl
      else none := by
  unfold tcpMatch fixedB ttlB
  by_cases h1 : s.layout = p.layout
  · by_cases h2 : (s.ipVer.isSome && s.ipVer != some p.ipVer) = true
    · simp [h1, h2]
    · cases hq : quirkStep (maskedQ s p) p.quirks with
      | none => simp [h1, h2]
      | some mt0 =>
        by_cases h3 : (s.eolPad != p.eolPad || (s.olen : Int) != p.olen) = true
        · simp [h1, h2, h3]
        · by_cases h5 : ((s.mss.isSome && s.mss != some p.mss) || (s.scale.isSome && s.scale != some p.wscale)
            || (s.payClass.isSome && s.payClass != some p.hasPayload)) = true
          · cases hb : s.badTtl <;> simp [h1, h2, h3, h5] <;> (try split) <;> simp_all
          · by_cases h6 : windowBad s p = true
            · cases hb : s.badTtl <;> simp [h1, h2, h3, h5, h6] <;> (try split) <;> simp_all
            · cases hb : s.badTtl
              · by_cases ht : (decide (s.ttl < p.ttl) || decide ((s.ttl : Int) - p.ttl > d)) = true
                · simp [h1, h2, h3, h5, h6, ht]
                · simp [h1, h2, h3, h5, h6, ht]
              · by_cases ht : s.ttl < p.ttl
                · simp [h1, h2, h3, h5, h6, ht]
                · simp [h1, h2, h3, h5, h6, ht]
  · simp [h1]

end P0f
