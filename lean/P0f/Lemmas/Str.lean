import P0f.Model.SigParse
import Std.Data.String.ToNat
namespace P0f
open P0f.Py

theorem dropWhile_id_of_all_false {p : Char → Bool} {s : List Char} (h : ∀ c ∈ s, p c = false) :
    s.dropWhile p = s := by
  cases s with
  | nil => rfl
  | cons a t => simp [List.dropWhile, h a (by simp)]

theorem stripP_id {p : Char → Bool} {s : List Char} (h : ∀ c ∈ s, p c = false) : stripP p s = s := by
  unfold stripP rstripP lstripP
  rw [dropWhile_id_of_all_false h, dropWhile_id_of_all_false (by simpa using h)]
  simp

theorem isDigit_not_space {c : Char} (h : c.isDigit = true) : isSpace c = false := by
  have h1 : 48 ≤ c.toNat ∧ c.toNat ≤ 57 := by
    simp only [Char.isDigit, Bool.and_eq_true, decide_eq_true_eq] at h
    have a := h.1; have b := h.2
    simp only [Char.toNat, UInt32.le_iff_toNat_le, ge_iff_le] at *
    constructor
    · simpa using a
    · simpa using b
  have hne : ∀ d : Char, d.toNat < 48 → (c == d) = false := by
    intro d hd
    rw [beq_eq_false_iff_ne]; rintro rfl; omega
  unfold isSpace
  simp only [Bool.or_eq_false_iff, Bool.and_eq_false_iff, beq_eq_false_iff_ne, decide_eq_false_iff_not]
  have e1 := hne ' ' (by decide)
  have e2 := hne '\t' (by decide)
  have e3 := hne '\n' (by decide)
  have e4 := hne '\r' (by decide)
  simp only [beq_eq_false_iff_ne, ne_eq] at e1 e2 e3 e4
  refine ⟨⟨⟨⟨⟨⟨e1, e2⟩, e3⟩, e4⟩, ?_⟩, ?_⟩, ?_⟩
  · omega
  · omega
  · right; omega

theorem natStr_digits (n : Nat) : ∀ c ∈ natStr n, c.isDigit = true := by
  intro c hc
  unfold natStr at hc
  rw [Nat.toList_repr] at hc
  exact Nat.isDigit_of_mem_toDigits (by omega) (by omega) hc

theorem natStr_ne_nil (n : Nat) : natStr n ≠ [] := by
  unfold natStr; rw [Nat.toList_repr]; exact Nat.toDigits_ne_nil

theorem digitsNat?_natStr (n : Nat) : digitsNat? (natStr n) = some n := by
  unfold digitsNat? natStr
  rw [String.ofList_toList]
  exact Nat.toNat?_repr n

theorem pyInt?_natStr (n : Nat) : pyInt? (natStr n) = some (n : Int) := by
  unfold pyInt?
  have hs : strip (natStr n) = natStr n :=
    stripP_id (fun c hc => isDigit_not_space (natStr_digits n c hc))
  simp only [hs]
  obtain ⟨c, r, hcr⟩ : ∃ c r, natStr n = c :: r := by
    cases h : natStr n with
    | nil => exact absurd h (natStr_ne_nil n)
    | cons c r => exact ⟨c, r, rfl⟩
  have hd : c.isDigit = true := natStr_digits n c (by rw [hcr]; simp)
  have h1 : c ≠ '+' := by rintro rfl; exact absurd hd (by decide)
  have h2 : c ≠ '-' := by rintro rfl; exact absurd hd (by decide)
  rw [hcr]
  simp only [List.head?_cons, Option.some.injEq, h1, h2, ↓reduceIte]
  rw [← hcr, digitsNat?_natStr]
  rfl

theorem parseNumberN_natStr (n : Nat) (lo hi : Int) (h1 : lo ≤ n) (h2 : (n : Int) ≤ hi) :
    parseNumberN (natStr n) lo hi = some n := by
  unfold parseNumberN parseNumber
  rw [pyInt?_natStr]
  simp [h1, h2]

end P0f
