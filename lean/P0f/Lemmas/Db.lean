import P0f.Spec.Db
/-
  Helper lemmas for C09 / C10 / C11: the line loop as a function of the line kinds, the invariant
  tying the parser state to the lines read so far, contributions applied to a database.
-/
namespace P0f
open P0f.Py

/-- one loop iteration as a function of the line's kind -/
def stepKind (st : PSt) (n : Nat) : LineKind → Except LoadErr PSt
  | .skip => .ok st
  | .header none => .error (.parsing n)
  | .header (some s) => .ok { st with db := st.db.create s, state := .needLabel, sec := some s }
  | .sig value =>
    match st.state, st.sec with
    | .needSig, some s =>
      match parseSigFor s.kind value with
      | none => .error (.parsing n)
      | some sg =>
        match st.db.add s { label := st.label, sig := sg, raw := value, line := n } with
        | .ok db => .ok { st with db := db }
        | .error e => .error e
    | _, _ => .error (.parsing n)
  | .label value =>
    match st.sec with
    | none => .error (.parsing n)
    | some s =>
      if st.state == .needLabel || st.state == .needSig then
        match parseLabelFor s.kind value with
        | none => .error (.parsing n)
        | some lb =>
          .ok { st with label := some lb, state := if lb.isUserApp then .needSys else .needSig }
      else .error (.parsing n)
  | .sys value =>
    match st.state, st.label with
    | .needSys, some (.os l _) =>
      .ok { st with label := some (.os l (split ',' value)), state := .needSig }
    | _, _ => .error (.parsing n)
  | .other => .error (.parsing n)

theorem head?_none_of_isEmpty {l : List Char} (h : l.isEmpty = true) : l.head? = none := by
  cases l <;> simp_all

theorem isEmpty_false_of_head? {l : List Char} {c : Char} (h : l.head? = some c) : l.isEmpty = false := by
  cases l <;> simp_all

/-- the model's loop body classifies the line and acts on the kind -/
theorem stepLine_eq (st : PSt) (n : Nat) (raw : List Char) :
    stepLine st n raw = stepKind st n (classify raw) := by
  unfold stepLine classify
  generalize strip raw = line
  cases line with
  | nil => simp [stepKind]
  | cons c t =>
    simp only [List.isEmpty_cons, List.head?_cons, Bool.false_eq_true, ↓reduceIte]
    generalize partition '=' (c :: t) = pr
    by_cases h1 : (c == ';' || c == '\n') = true
    · simp [h1, stepKind]
    · simp only [h1, Bool.false_eq_true, ↓reduceIte]
      by_cases h2 : (c == '[') = true
      · simp only [h2, ↓reduceIte]
        cases parseSection (c :: t) <;> simp [stepKind]
      · simp only [h2, Bool.false_eq_true, ↓reduceIte]
        by_cases h3 : (strip pr.1 == "sig".toList) = true
        · simp only [h3, ↓reduceIte, stepKind]
          all_goals rfl
        · simp only [h3, Bool.false_eq_true, ↓reduceIte]
          by_cases h4 : (strip pr.1 == "label".toList) = true
          · simp only [h4, ↓reduceIte, stepKind]
            all_goals rfl
          · simp only [h4, Bool.false_eq_true, ↓reduceIte]
            by_cases h5 : (strip pr.1 == "sys".toList) = true
            · simp only [h5, ↓reduceIte, stepKind]
              all_goals rfl
            · simp only [h5, Bool.false_eq_true, ↓reduceIte]
              by_cases h6 : isSkippedParam (strip pr.1) = true
              · simp [h6, stepKind]
              · simp [h6, stepKind]

/-! ### contributions applied to a database -/

abbrev Ev := Section × Option DbRec

def applyEv (db : Db) (ev : List Ev) : Db := fun s =>
  let e := ev.filter (·.1 = s)
  match db s with
  | some l => some (l ++ e.filterMap (·.2))
  | none => if e.isEmpty then none else some (e.filterMap (·.2))

theorem applyEv_nil (db : Db) : applyEv db [] = db := by
  funext s; simp [applyEv]; cases db s <;> simp

theorem applyEv_empty (ev : List Ev) : applyEv Db.empty ev = dbOfEvents ev := by
  funext s; simp [applyEv, dbOfEvents, Db.empty]

theorem applyEv_append (db : Db) (a b : List Ev) : applyEv (applyEv db a) b = applyEv db (a ++ b) := by
  funext s
  simp only [applyEv, List.filter_append, List.filterMap_append]
  cases hd : db s with
  | some l => simp [List.append_assoc]
  | none =>
    by_cases ha : (a.filter (·.1 = s)).isEmpty = true
    · have ha' : a.filter (·.1 = s) = [] := by simpa using ha
      rw [ha']; simp
    · have ha' : a.filter (·.1 = s) ≠ [] := by simpa using ha
      simp [ha, ha']

/-- what one line contributes, given the lines before it -/
def evOf (k : LineKind) (pre : List LineKind) : List Ev :=
  match k with
  | .header (some s) => [(s, none)]
  | .sig v => ((recordAt pre v).map fun sr => (sr.1, some sr.2)).toList
  | _ => []

theorem specEvents_cons (k : LineKind) (rest pre : List LineKind) :
    specEvents (k :: rest) pre = evOf k pre ++ specEvents rest (k :: pre) := by
  cases k with
  | header s => cases s <;> simp [specEvents, evOf]
  | sig v => simp [specEvents, evOf]
  | _ => simp [specEvents, evOf]

theorem create_eq_applyEv (db : Db) (s : Section) : db.create s = applyEv db [(s, none)] := by
  funext t
  unfold Db.create applyEv
  cases hs : db s with
  | some l =>
    by_cases hts : t = s
    · subst hts; simp [hs]
    · have : ¬ s = t := fun h => hts h.symm
      simp [this]; cases db t <;> simp
  | none =>
    by_cases hts : t = s
    · subst hts; simp [hs, Db.set]
    · have : ¬ s = t := fun h => hts h.symm
      simp [this, Db.set, hts]; cases db t <;> simp

theorem set_eq_applyEv (db : Db) (s : Section) (l : List DbRec) (r : DbRec) (h : db s = some l) :
    db.set s (some (l ++ [r])) = applyEv db [(s, some r)] := by
  funext t
  unfold applyEv
  by_cases hts : t = s
  · subst hts; simp [h, Db.set]
  · have : ¬ s = t := fun h => hts h.symm
    simp [this, Db.set, hts]; cases db t <;> simp

/-! ### the invariant -/

structure Inv (st : PSt) (pre : List LineKind) : Prop where
  sec : st.sec = lastSection pre
  label : st.label = lastLabel pre
  created : ∀ s, st.sec = some s → ∃ l, st.db s = some l

theorem Inv.init : Inv PSt.init [] := ⟨rfl, rfl, by intro s h; simp [PSt.init] at h⟩

theorem create_isSome (db : Db) (s : Section) : ∃ l, db.create s s = some l := by
  unfold Db.create
  cases h : db s with
  | some l => exact ⟨l, by simp [h]⟩
  | none => exact ⟨[], by simp [Db.set]⟩

/-- one successful iteration keeps the invariant and applies exactly the line's contribution -/
theorem stepKind_ok (st st' : PSt) (pre : List LineKind) (k : LineKind)
    (hinv : Inv st pre) (h : stepKind st (pre.length + 1) k = .ok st') :
    Inv st' (k :: pre) ∧ st'.db = applyEv st.db (evOf k pre) := by
  cases k with
  | skip =>
    simp only [stepKind, Except.ok.injEq] at h; subst h
    exact ⟨⟨hinv.sec, hinv.label, hinv.created⟩, by simp [evOf, applyEv_nil]⟩
  | other => simp [stepKind] at h
  | header s =>
    cases s with
    | none => simp [stepKind] at h
    | some s =>
      simp only [stepKind, Except.ok.injEq] at h; subst h
      refine ⟨⟨rfl, ?_, ?_⟩, ?_⟩
      · simpa [lastLabel] using hinv.label
      · intro t ht
        simp only [Option.some.injEq] at ht; subst ht
        exact create_isSome st.db s
      · simp [evOf, create_eq_applyEv]
  | sig v =>
    simp only [stepKind] at h
    split at h
    · rename_i s hstate hsec
      cases hp : parseSigFor s.kind v with
      | none => simp [hp] at h
      | some sg =>
        simp only [hp] at h
        obtain ⟨l, hl⟩ := hinv.created s hsec
        simp only [Db.add, hl, Except.ok.injEq] at h
        subst h
        have hls : lastSection pre = some s := by rw [← hinv.sec]; exact hsec
        refine ⟨⟨?_, ?_, ?_⟩, ?_⟩
        · simpa [lastSection] using hinv.sec
        · simpa [lastLabel] using hinv.label
        · intro t ht
          have : t = s := by rw [hsec] at ht; exact (Option.some.inj ht).symm
          subst this
          exact ⟨l ++ [{ label := st.label, sig := sg, raw := v, line := pre.length + 1 }], by simp [Db.set]⟩
        · simp only [evOf, recordAt, hls, hp, Option.map_some, Option.toList_some]
          rw [← hinv.label]
          exact set_eq_applyEv st.db s l _ hl
    · simp at h
  | label v =>
    simp only [stepKind] at h
    cases hsec : st.sec with
    | none => simp [hsec] at h
    | some s =>
      simp only [hsec] at h
      split at h
      · cases hp : parseLabelFor s.kind v with
        | none => simp [hp] at h
        | some lb =>
          simp only [hp, Except.ok.injEq] at h; subst h
          have hls : lastSection pre = some s := by rw [← hinv.sec]; exact hsec
          refine ⟨⟨?_, ?_, ?_⟩, ?_⟩
          · simpa [lastSection, hsec] using hls.symm
          · simp [lastLabel, hls, hp]
          · intro t ht; exact hinv.created t (by simpa [hsec] using ht)
          · simp [evOf, applyEv_nil]
      · simp at h
  | sys v =>
    simp only [stepKind] at h
    split at h
    · rename_i l sysOld hstate hlabel
      simp only [Except.ok.injEq] at h; subst h
      refine ⟨⟨?_, ?_, ?_⟩, ?_⟩
      · simpa [lastSection] using hinv.sec
      · have : lastLabel pre = some (.os l sysOld) := by rw [← hinv.label]; exact hlabel
        simp [lastLabel, this, DbLabel.withSys]
      · intro t ht; exact hinv.created t ht
      · simp [evOf, applyEv_nil]
    · simp at h

/-- the whole loop: the final database is the initial one plus the contributions of the lines read -/
theorem parseGo_spec (ls : List (List Char)) (st st' : PSt) (pre : List LineKind)
    (hinv : Inv st pre) (h : parseGo ls (pre.length + 1) st = .ok st') :
    st'.db = applyEv st.db (specEvents (ls.map classify) pre) := by
  induction ls generalizing st pre with
  | nil =>
    simp only [parseGo, Except.ok.injEq] at h; subst h
    simp [specEvents, applyEv_nil]
  | cons l ls ih =>
    simp only [parseGo] at h
    cases hs : stepLine st (pre.length + 1) l with
    | error e => simp [hs] at h
    | ok st1 =>
      simp only [hs] at h
      rw [stepLine_eq] at hs
      obtain ⟨hinv1, hdb1⟩ := stepKind_ok st st1 pre (classify l) hinv hs
      have := ih st1 (classify l :: pre) hinv1 (by simpa using h)
      rw [this, hdb1, List.map_cons, specEvents_cons, applyEv_append]

end P0f
