import P0f.Model.Uptime
import Mathlib.Data.Rat.Floor
import Mathlib.Algebra.Order.Field.Basic
/-
  Declarative reading of C13 over the rationals.
-/
namespace P0f

/-- timestamp advance modulo 2^32 -/
def ticks (tsPrev tsNow : Nat) : Nat := (tsNow + TWO32 - tsPrev % TWO32) % TWO32

/-- a backward step: the advance modulo 2^32 is in the upper half -/
def backward (tsPrev tsNow : Nat) : Prop := 2147483648 ≤ ticks tsPrev tsNow

def minScaleQ (o : UpOpts) : ℚ := (o.minScaleN : ℚ) / o.minScaleD
def maxScaleQ (o : UpOpts) : ℚ := (o.maxScaleN : ℚ) / o.maxScaleD

/-- "a small backward step inside the grace window is silently tolerated": elapsed below the grace
    window and (backward ticks − 1) / 1000 below max scale / grace -/
def tolerated (o : UpOpts) (tsPrev tsNow : Nat) (ms : Int) : Prop :=
  ms < o.grace ∧ (((TWO32 - 1 - ticks tsPrev tsNow) / 1000 : Nat) : ℚ) < maxScaleQ o / (o.grace : ℚ)

/-- "no verdict unless both timestamps are non-zero, the elapsed time is within [min wait, max wait]
    and the timestamp advanced, modulo 2^32, by at least 5 ticks" -/
def noVerdictCond (o : UpOpts) (tsPrev tsNow : Nat) (ms : Int) : Prop :=
  tsNow = 0 ∨ tsPrev = 0 ∨ ms < o.minWait ∨ o.maxWait < ms ∨ ticks tsPrev tsNow < 5 ∨ tolerated o tsPrev tsNow ms

/-- raw frequency of a forward step: ticks * 1000 / elapsed_ms -/
def rawFreq (tsPrev tsNow : Nat) (ms : Int) : ℚ := ((ticks tsPrev tsNow * 1000 : Nat) : ℚ) / (ms : ℚ)

/-- the documented domain of the thresholds -/
structure UpOpts.Dom (o : UpOpts) : Prop where
  minPos : 0 < o.minScaleN
  minD : 0 < o.minScaleD
  maxD : 0 < o.maxScaleD
  wait : 1 ≤ o.minWait
  grace : 1 ≤ o.grace

open Classical in
noncomputable def specUptime (o : UpOpts) (flags : Nat) (isFragment : Bool) (tsPrev tsNow : Nat) (ms : Int) : UpOut :=
  let t := tcpType flags
  if isFragment = true ∨ ¬ (t = F_SYN ∨ t = F_SYN ||| F_ACK ∨ t = F_ACK) then .packetError
  else if noVerdictCond o tsPrev tsNow ms then .noVerdict
  else if backward tsPrev tsNow ∨ ¬ (minScaleQ o ≤ rawFreq tsPrev tsNow ms ∧ rawFreq tsPrev tsNow ms ≤ maxScaleQ o) then
    (if t = F_SYN then .noVerdict else .badTps)
  else
    let f := roundFrequency ⌊rawFreq tsPrev tsNow ms⌋.toNat
    .verdict (ticks tsPrev tsNow * 1000) ms.toNat f (tsNow / f / 60) (4294967295 / (f * 86400))

end P0f
