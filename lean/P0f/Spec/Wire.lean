import P0f.Model.Wire
/-
  Declarative reading of C03.
  (1) Option area: a tokeniser (the grammar of a TCP option area: NOP / EOL+rest / complete
      option kind,len,body / truncated / overrunning) and a per-token interpretation.  Values come
      only from complete tokens of exactly the right length; the tokens partition the buffer in
      wire order.
  (2) Quirks as conditions on the header bits (RFC 791 / 8200 / 793 positions).
-/
namespace P0f

inductive Tok
  | nop
  | eol (rest : List Nat)                       -- EOL and every byte after it
  | opt (kind len : Nat) (body : List Nat)      -- complete option: kind, len (2 ≤ len, fits), len-2 body bytes
  | trunc (kind : Nat)                          -- kind byte with no room for a length byte
  | overrun (kind len : Nat) (rest : List Nat)  -- length < 2 or running past the end of the header
  deriving Repr, DecidableEq

def Tok.bytes : Tok → List Nat
  | .nop => [1]
  | .eol rest => 0 :: rest
  | .opt k len body => k :: len :: body
  | .trunc k => [k]
  | .overrun k len rest => k :: len :: rest

def Tok.kind : Tok → Nat
  | .nop => 1 | .eol _ => 0 | .opt k _ _ => k | .trunc k => k | .overrun k _ _ => k

/-- grammar of the option area -/
def tokenize : List Nat → List Tok
  | [] => []
  | kind :: rest =>
    if kind = 0 then [.eol rest]
    else if kind = 1 then .nop :: tokenize rest
    else
      match rest with
      | [] => [.trunc kind]
      | len :: rest' =>
        if len > 2 + rest'.length ∨ len < 2 then [.overrun kind len rest']
        else .opt kind len (rest'.take (len - 2)) :: tokenize (rest'.drop (len - 2))
termination_by l => l.length
decreasing_by
  all_goals simp only [List.length_cons, List.length_drop]
  all_goals omega

/-- is a complete option well-formed for its kind? (SACK 10..34, fixed formats exact, others 2..40) -/
def wellFormed (kind len : Nat) : Bool :=
  if kind = 5 then decide (10 ≤ len ∧ len ≤ 34)
  else match optSize kind with
    | some sz => len == 2 + sz
    | none => decide (2 ≤ len ∧ len ≤ 40)

/-- does parsing stop at a malformed complete option? (fixed-format ones are skipped over) -/
def stopsAt (kind : Nat) : Bool := kind = 5 || (optSize kind).isNone

/-- per-token interpretation, in wire order -/
def interp (isSyn : Bool) : List Tok → Opts → Opts
  | [], o => o
  | .nop :: ts, o => interp isSyn ts (o.pushKind 1)
  | .eol rest :: _, o => ((o.pushKind 0).setEolPad rest.length).addQuirkIf (rest.any (· != 0)) .eolNz
  | .trunc k :: _, o => (o.pushKind k).addQuirk .bad
  | .overrun k _ _ :: _, o => (o.pushKind k).addQuirk .bad
  | .opt k len body :: ts, o =>
    if wellFormed k len then interp isSyn ts (applyValue isSyn k body (o.pushKind k))
    else if stopsAt k then (o.pushKind k).addQuirk .bad
    else interp isSyn ts ((o.pushKind k).addQuirk .bad)

/-! header bits -/

def v4DF (b : List Nat) : Bool := b.getD 6 0 / 64 % 2 == 1
def v4MF (b : List Nat) : Bool := b.getD 6 0 / 32 % 2 == 1
def v4Reserved (b : List Nat) : Bool := b.getD 6 0 / 128 % 2 == 1
def v4FragOff (b : List Nat) : Nat := (b.getD 6 0 % 32) * 256 + b.getD 7 0
def v4Id (b : List Nat) : Nat := b.getD 4 0 * 256 + b.getD 5 0
def v4Ecn (b : List Nat) : Nat := b.getD 1 0 % 4
def v6TrafficClass (b : List Nat) : Nat := (b.getD 0 0 % 16) * 16 + b.getD 1 0 / 16
def v6Flow (b : List Nat) : Nat := ((b.getD 1 0 % 16) * 256 + b.getD 2 0) * 256 + b.getD 3 0

def tFIN (t : List Nat) : Bool := t.getD 13 0 % 2 == 1
def tSYN (t : List Nat) : Bool := t.getD 13 0 / 2 % 2 == 1
def tRST (t : List Nat) : Bool := t.getD 13 0 / 4 % 2 == 1
def tPSH (t : List Nat) : Bool := t.getD 13 0 / 8 % 2 == 1
def tACK (t : List Nat) : Bool := t.getD 13 0 / 16 % 2 == 1
def tURG (t : List Nat) : Bool := t.getD 13 0 / 32 % 2 == 1
def tECE (t : List Nat) : Bool := t.getD 13 0 / 64 % 2 == 1
def tCWR (t : List Nat) : Bool := t.getD 13 0 / 128 % 2 == 1
def tNS (t : List Nat) : Bool := t.getD 12 0 % 2 == 1
def tSeq (t : List Nat) : Nat := u32 t 4
def tAck (t : List Nat) : Nat := u32 t 8
def tUrp (t : List Nat) : Nat := u16 t 18

/-- the documented IPv4 quirks -/
def specV4Quirk (b : List Nat) : Quirk → Bool
  | .df => v4DF b
  | .nzId => v4DF b && v4Id b != 0
  | .zeroId => !v4DF b && v4Id b == 0
  | .nzMbz => v4Reserved b
  | .ecn => v4Ecn b != 0
  | _ => false

def specV6Quirk (b : List Nat) : Quirk → Bool
  | .flow => v6Flow b != 0
  | .ecn => v6TrafficClass b % 4 != 0
  | _ => false

/-- the documented TCP header quirks (option quirks come from the option walk) -/
def specTcpQuirk (t : List Nat) : Quirk → Bool
  | .ecn => tECE t || tCWR t || tNS t
  | .zeroSeq => tSeq t == 0
  | .nzAck => !tACK t && tAck t != 0 && !tRST t
  | .zeroAck => tACK t && tAck t == 0
  | .nzUrg => !tURG t && tUrp t != 0
  | .urg => tURG t
  | .push => tPSH t
  | _ => false

/-- "initial SYN regardless of PSH/URG/ECN bits": the masked type is exactly SYN -/
def isInitialSyn (t : List Nat) : Bool := tSYN t && !tACK t && !tFIN t && !tRST t

end P0f
