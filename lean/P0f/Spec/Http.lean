import P0f.Model.Http
/-
  Declarative reading of C06.
-/
namespace P0f
open P0f.Py

/-- names compared case-insensitively -/
def NameEq (h : SigHdr) (ph : Hdr) : Prop := lower h.name = lower ph.name

/-- `j` is the first position at or after `i` whose header has the signature header's name -/
def FirstAt (all : List Hdr) (h : SigHdr) (i j : Nat) : Prop :=
  i ≤ j ∧ (∃ ph, all[j]? = some ph ∧ NameEq h ph) ∧
  ∀ k, i ≤ k → k < j → ∀ ph, all[k]? = some ph → ¬ NameEq h ph

/-- "walking the signature's headers in order finds each at or after the previous match in the
    message with any demanded substring inside the first such occurrence's value, an optional
    header being allowed only if it occurs nowhere else" -/
inductive Walk (all : List Hdr) : List SigHdr → Nat → Prop
  | nil (i : Nat) : Walk all [] i
  | found (h : SigHdr) (hs : List SigHdr) (i j : Nat) (ph : Hdr) :
      FirstAt all h i j → all[j]? = some ph → (∀ v, h.value = some v → isInfix v ph.value = true) →
      Walk all hs (j + 1) → Walk all (h :: hs) i
  | absent (h : SigHdr) (hs : List SigHdr) (i : Nat) :
      h.optional = true → (∀ ph ∈ all, ¬ NameEq h ph) → Walk all hs i → Walk all (h :: hs) i

/-- the whole signature: version equal or wildcarded, every required header present, no absent
    header present, and the walk -/
def HttpSigMatches (s : HttpSig) (minor : Nat) (ph : List Hdr) : Prop :=
  (s.version = none ∨ s.version = some minor) ∧
  (∀ h ∈ s.headers, h.optional = false → ∃ p ∈ ph, lower p.name = lower h.name) ∧
  (∀ a ∈ s.absent, ∀ p ∈ ph, lower p.name ≠ a) ∧
  Walk ph s.headers 0

/-- "the earliest non-generic match else the earliest generic one" -/
def specFindHttp (recs : List HttpRec) (minor : Nat) (ph : List Hdr) : Option HttpRec :=
  match recs.find? (fun r => httpSigMatch r.sig minor ph && !r.generic) with
  | some r => some r
  | none => recs.find? (fun r => httpSigMatch r.sig minor ph && r.generic)

end P0f
