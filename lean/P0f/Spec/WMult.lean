import P0f.Model.WMult
/-
  Declarative reading of property C17, written from the property text.
-/
namespace P0f

/-- the candidate divisors in the documented order; the flag says "as MTU multiple".
    MSS; MSS-12 if a timestamp is present; 1460; 1448; (IPv6: 1440; 1428); then as MTU multiples
    MSS+40; MSS+total header length; (IPv6: MSS+60); 1500; then the peer's MSS and peer MSS-12
    on a SYN+ACK when known. -/
def specDivisors (p : WIn) : List (Int × Bool) :=
  [((p.mss : Int), false)]
  ++ (if p.ts ≠ 0 then [((p.mss : Int) - 12, false)] else [])
  ++ [(1460, false), (1448, false)]
  ++ (if p.ipVer = 6 then [(1440, false), (1428, false)] else [])
  ++ [((p.mss : Int) + 40, true), ((p.mss : Int) + p.hdrLen, true)]
  ++ (if p.ipVer = 6 then [((p.mss : Int) + 60, true)] else [])
  ++ [(1500, true)]
  ++ (if p.synMss ≠ 0 then [((p.synMss : Int), false), ((p.synMss : Int) - 12, false)] else [])

/-- `d` divides the window (and is a usable divisor) -/
def Divides (win : Nat) (d : Int) : Prop := d ≠ 0 ∧ d ∣ (win : Int)

/-- `(d, m)` is the first documented divisor that divides the window -/
def FirstDivisor (p : WIn) (d : Int) (m : Bool) : Prop :=
  ∃ before after, specDivisors p = before ++ (d, m) :: after ∧ Divides p.win d ∧
    ∀ x ∈ before, ¬ Divides p.win x.1

/-- no documented divisor divides the window -/
def NoDivisor (p : WIn) : Prop := ∀ x ∈ specDivisors p, ¬ Divides p.win x.1

/-- "non-zero window and MSS >= 100" -/
def HasBase (p : WIn) : Prop := p.win ≠ 0 ∧ 100 ≤ p.mss

end P0f
