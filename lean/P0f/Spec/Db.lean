import P0f.Model.DbParse
/-
  Declarative reading of C09: what a successfully loaded database holds, stated per `sig` line of
  the file in terms of the lines *before* it (no parser state):

  * every line is classified on its own (`classify`);
  * the enclosing section of a line is the last section header before it (`lastSection`);
  * its label is the last `label` line before it, parsed by the label class of the section that
    line sits in, with the `sys` list of a `sys` line that follows it (`lastLabel`);
  * a `sig` line number n contributes exactly one record (`recordAt`): enclosing section, that
    label, the structured signature of its text, the raw text, and n;
  * a section exists in the database iff the file has a header for it; its records are the
    contributions of its `sig` lines in file order (`specDb`).
-/
namespace P0f
open P0f.Py

inductive LineKind
  | skip                              -- blank, whitespace-only, comment, `classes`, `ua_os`
  | header (s : Option Section)       -- a `[` line; `none` = malformed / unknown section
  | sig (v : List Char)
  | label (v : List Char)
  | sys (v : List Char)
  | other                             -- any other parameter

/-- what kind of line a raw line of the file is (depends on that line only) -/
def classify (raw : List Char) : LineKind :=
  let line := strip raw
  match line.head? with
  | none => .skip
  | some c =>
    if c == ';' || c == '\n' then .skip
    else if c == '[' then .header (parseSection line)
    else
      let (p, _, v) := partition '=' line
      let param := strip p
      let value := strip v
      if param == "sig".toList then .sig value
      else if param == "label".toList then .label value
      else if param == "sys".toList then .sys value
      else if isSkippedParam param then .skip
      else .other

/-- last section header among the lines before (argument: earlier lines, most recent first) -/
def lastSection : List LineKind → Option Section
  | [] => none
  | .header (some s) :: _ => some s
  | _ :: t => lastSection t

/-- the most recent label among the lines before, with its `sys` list -/
def lastLabel : List LineKind → Option DbLabel
  | [] => none
  | .label v :: t =>
    match lastSection t with
    | some s => parseLabelFor s.kind v
    | none => none
  | .sys v :: t => (lastLabel t).map (DbLabel.withSys (split ',' v))
  | _ :: t => lastLabel t

/-- the record a `sig` line with value `v` stands for, given the lines before it -/
def recordAt (pre : List LineKind) (v : List Char) : Option (Section × DbRec) :=
  match lastSection pre with
  | none => none
  | some s =>
    (parseSigFor s.kind v).map fun sg =>
      (s, { label := lastLabel pre, sig := sg, raw := v, line := pre.length + 1 })

/-- file-order list of what the lines contribute: a header creates its section (`(s, none)`), a `sig`
    line contributes its record (`(s, some r)`).  Second argument: the lines before, most recent first. -/
def specEvents : List LineKind → List LineKind → List (Section × Option DbRec)
  | [], _ => []
  | .header (some s) :: rest, pre => (s, none) :: specEvents rest (.header (some s) :: pre)
  | .sig v :: rest, pre =>
    ((recordAt pre v).map fun sr => (sr.1, some sr.2)).toList ++ specEvents rest (.sig v :: pre)
  | k :: rest, pre => specEvents rest (k :: pre)

/-- the database a list of contributions denotes -/
def dbOfEvents (ev : List (Section × Option DbRec)) : Db := fun s =>
  if (ev.filter (·.1 = s)).isEmpty then none else some ((ev.filter (·.1 = s)).filterMap (·.2))

/-- **the specification**: the database a file denotes -/
def specDb (lines : List (List Char)) : Db := dbOfEvents (specEvents (lines.map classify) [])

def LineKind.isSig : LineKind → Bool
  | .sig _ => true
  | _ => false

end P0f
