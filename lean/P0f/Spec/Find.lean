import P0f.Model.Find
/-
  Declarative reading of C02.
-/
namespace P0f

def isExact (p : PSig) (d : Int) (r : Rec) : Bool := tcpMatch r.sig p d == some .exact
def isFuzzy (p : PSig) (d : Int) (r : Rec) : Bool :=
  (tcpMatch r.sig p d).isSome && tcpMatch r.sig p d != some .exact

/-- "the earliest non-generic exact match in file order, else the earliest generic exact match,
    else the earliest fuzzy match unless that record is a user-space application, else no match" -/
def specFind (recs : List Rec) (p : PSig) (d : Int) : Option TcpMatch :=
  match recs.find? (fun r => isExact p d r && !r.generic) with
  | some r => some (.exact, r)
  | none =>
    match recs.find? (fun r => isExact p d r && r.generic) with
    | some r => some (.exact, r)
    | none =>
      match recs.find? (isFuzzy p d) with
      | some r => if r.userApp then none else (tcpMatch r.sig p d).map (·, r)
      | none => none

/-- "signature TTL minus packet TTL for exact and fuzzy-quirk matches and the gap to the next
    initial TTL (32/64/128/255) otherwise" -/
def specDistance (m : Option TcpMatch) (pttl : Nat) : Int :=
  match m with
  | some (.exact, r) => (r.sig.ttl : Int) - pttl
  | some (.fuzzyQuirks, r) => (r.sig.ttl : Int) - pttl
  | _ =>
    if pttl ≤ 32 then 32 - (pttl : Int) else if pttl ≤ 64 then 64 - (pttl : Int)
    else if pttl ≤ 128 then 128 - (pttl : Int) else 255 - (pttl : Int)

end P0f
