import P0f.Model.Basic
/-
  Declarative reading of property C01, written from the property text (not from the code).
-/
namespace P0f

/-- signature quirks "after removing the other IP family's quirks from version-agnostic
    signatures" -/
def effQ (s : Sig) (p : PSig) : QSet := fun q =>
  s.quirks q && !(s.ipVer.isNone &&
    (if p.ipVer = 4 then decide (q = .flow)
     else decide (q = .df ∨ q = .nzId ∨ q = .zeroId ∨ q = .nzMbz)))

/-- "the quirks are equal" -/
def quirksEqual (s : Sig) (p : PSig) : Prop := ∀ q, effQ s p q = p.quirks q

/-- "or differ only by df or id+ missing, or by id- or ecn extra" (includes equality) -/
def quirksFuzz (s : Sig) (p : PSig) : Prop :=
  (∀ q, effQ s p q = true → p.quirks q = false → (q = .df ∨ q = .nzId)) ∧
  (∀ q, effQ s p q = false → p.quirks q = true → (q = .zeroId ∨ q = .ecn))

/-- "the window fits the signature's form (literal, %N, mss*N, mtu*N, any)" -/
def windowFits (s : Sig) (p : PSig) : Prop :=
  match s.wtype with
  | .normal => s.wsize = p.win
  | .any => True
  | .mod => p.win % s.wsize = 0
  | .mss => p.multMtu = false ∧ p.multVal = s.wsize
  | .mtu => p.multMtu = true ∧ p.multVal = s.wsize

/-- everything that must hold for any match at all -/
def fixedOk (s : Sig) (p : PSig) : Prop :=
  s.layout = p.layout ∧ s.eolPad = p.eolPad ∧ (s.olen : Int) = p.olen ∧
  (∀ v, s.ipVer = some v → v = p.ipVer) ∧
  (∀ m, s.mss = some m → m = p.mss) ∧ (∀ m, s.scale = some m → m = p.wscale) ∧
  (∀ c, s.payClass = some c → c = p.hasPayload) ∧ windowFits s p ∧
  (s.badTtl = true → p.ttl ≤ s.ttl)

/-- "0 ≤ signature TTL − packet TTL ≤ max distance", a `ttl-` signature ignoring the limit -/
def ttlWithin (s : Sig) (p : PSig) (d : Int) : Prop :=
  s.badTtl = true ∨ (p.ttl ≤ s.ttl ∧ (s.ttl : Int) - p.ttl ≤ d)

open Classical in
/-- the property as a function: no match / exact / fuzzy (TTL fuzz reported in preference to
    quirk fuzz, which is the observable `match.type` split of "fuzzy") -/
noncomputable def specMatch (s : Sig) (p : PSig) (d : Int) : Option MatchType :=
  if ¬ (fixedOk s p ∧ quirksFuzz s p) then none
  else if quirksEqual s p ∧ ttlWithin s p d then some .exact
  else if ¬ ttlWithin s p d then some .fuzzyTtl
  else some .fuzzyQuirks

end P0f
