#!/venv/bin/python
"""
Hand-minimised witnesses of the defects found while designing (DESIGN.md section 6).
Each function runs the REAL pyp0f (imported from /repo's working tree) on one concrete
input and returns None if the property holds there, or a string saying what fails.

Usage: /venv/bin/python corpus/witnesses.py [F01 F04 ...]
Every witness here is also fed through the per-property checks (corpus stream); this file is
the human-readable index used before/after each `fix:` commit.
"""
import os, sys, tempfile, signal, logging
logging.getLogger("scapy").setLevel(logging.ERROR)
sys.path.insert(0, os.environ.get("PYP0F_REPO", "/repo"))

from scapy.layers.inet import IP, TCP
from scapy.layers.inet6 import IPv6
from scapy.layers.l2 import Ether
from scapy.packet import Raw, Padding

from pyp0f.database import Database
from pyp0f.database.records import TCPRecord, MTURecord
from pyp0f.database.signatures import TCPSignature
from pyp0f.exceptions import PacketError, DatabaseError, ParsingError
from pyp0f.fingerprint import fingerprint_tcp, fingerprint_http, fingerprint_mtu, fingerprint_uptime
from pyp0f.fingerprint.tcp import tcp_signatures_match
from pyp0f.impersonate import impersonate_mtu, impersonate_tcp
from pyp0f.net.layers.tcp import TCPOptions
from pyp0f.net.packet import parse_packet, Direction
from pyp0f.net.signatures import TCPPacketSignature
from pyp0f.options import Options
from pyp0f.net.quirks import Quirk


def db_from_text(text, binary=False):
    fd, path = tempfile.mkstemp(prefix="pyp0f-w-", suffix=".fp", dir="/dev/shm" if os.path.isdir("/dev/shm") else None)
    with os.fdopen(fd, "wb") as f:
        f.write(text if binary else text.encode())
    try:
        d = Database()
        d.load(path)
        return d
    finally:
        os.unlink(path)


class Timeout(Exception):
    pass


def with_alarm(seconds, fn):
    def h(*a):
        raise Timeout()
    old = signal.signal(signal.SIGALRM, h)
    signal.alarm(seconds)
    try:
        return fn()
    finally:
        signal.alarm(0)
        signal.signal(signal.SIGALRM, old)


def F01():
    sig = TCPSignature.parse("4:64:0:*:*,0:mss::0")
    pkt = IPv6(hlim=64) / TCP(flags="S", seq=1, options=[("MSS", 1460)])
    ps = TCPPacketSignature.from_packet(parse_packet(pkt))
    r = tcp_signatures_match(sig, ps, Options())
    if r is not None:
        return f"IPv4-only signature matches an IPv6 packet: {r}"


def F02():
    pkt = IP() / TCP(flags="SP", seq=1, options=[("Timestamp", (5, 7))])
    ps = TCPPacketSignature.from_packet(parse_packet(pkt))
    if Quirk.OPT_NZ_TS2 not in ps.quirks:
        return "SYN+PSH with peer timestamp 7 has no ts2+ quirk"


def F04():
    for raw in (b"\x02\x00\x00\x00", b"\x03\x00\x00\x00", b"\x04\x00\x00\x00", b"\x08\x00\x00\x00"):
        try:
            o = with_alarm(2, lambda: TCPOptions.parse(raw))
        except Timeout:
            return f"TCPOptions.parse({raw!r}) does not terminate"
        if len(o.layout) > len(raw):
            return "layout longer than buffer"


def F05():
    db = db_from_text("[http:request]\nlabel = s:!:x:\nsys = Linux\nsig = *:Host:: \n[http:response]\nlabel = s:!:x:\nsys = Linux\nsig = *:Host:: \n")
    for payload in (b"\n\n", b"\r\n\r\n", b"\nGET / HTTP/1.1\r\n\r\n"):
        try:
            fingerprint_http(payload, options=Options(database=db))
        except PacketError:
            pass
        except Exception as e:
            return f"fingerprint_http({payload!r}) raised {type(e).__name__}"


def F18():
    pkt = IP() / TCP(flags="S", options=[("NOP", None), ("WScale", 3), ("SAckOK", b"")])
    before = list(pkt[TCP].options)
    out = impersonate_mtu(pkt, raw_signature="1500")
    rest = [o for o in out[TCP].options if o[0] != "MSS"]
    if rest != before:
        return f"options other than MSS changed: {before} -> {out[TCP].options}"


def F19():
    db = db_from_text("[mtu]\nlabel = A\nsig = 1500\n[tcp:request]\n[mtu]\nlabel = B\nsig = 576\n")
    n = len(db)
    recs = [r.raw_signature for r in db.iter_values(MTURecord)]
    if n != 2 or recs != ["1500", "576"]:
        return f"repeated [mtu] header: len={n}, records={recs} (file has sig lines 1500, 576)"


def _load_exc(text, binary=False):
    try:
        db_from_text(text, binary)
    except ParsingError as e:
        return ("ParsingError", e.line_number)
    except DatabaseError:
        return ("DatabaseError", None)
    except Exception as e:
        return (type(e).__name__, None)
    return ("ok", None)


def F20():
    bad = []
    for sig in (":64:0:*:*,0:mss::0".replace(":64", "::", 1)[0:0] + "*::0:*:*,0:mss::0", "*:64:0:*:,0:mss::0", "*:64:0:*:*,0:mss,,nop::0"):
        r = _load_exc(f"[tcp:request]\nlabel = s:unix:x:\nsig = {sig}\n")
        if r != ("ParsingError", 3):
            bad.append((sig, r))
    if bad:
        return f"empty ttl/window/option item: {bad}"


def F21():
    r = _load_exc("[tcp:request]\nlabel = s:unix:x:\nsig = *:64+x:0:*:*,0:mss::0\n")
    if r != ("ParsingError", 3):
        return f"ttl '64+x': {r}"


def F22():
    out = []
    for text in ("[mtu]\nlabel = A\n   \nsig = 1500\n", "[mtu]\n \t\nlabel = A\nsig = 1500\n", "[mtu]\nlabel = A\n  ; indented comment\nsig = 1500\n"):
        r = _load_exc(text)
        if r != ("ok", None):
            out.append((text, r))
    if out:
        return f"whitespace-only / indented comment line: {out}"


def F23():
    out = []
    for text in ("[tcp]\nlabel = s:unix:x:\nsig = *:64:0:*:*,0:mss::0\n", "[mtu:request]\nlabel = A\nsig = 1500\n"):
        r = _load_exc(text)
        if r[0] == "ok":
            out.append(text.splitlines()[0])
    if out:
        return f"section headers accepted: {out}"


def F24():
    r = _load_exc(b"[mtu]\nlabel = \xff\xfe\nsig = 1500\n", binary=True)
    if r[0] not in ("DatabaseError", "ParsingError"):
        return f"non-UTF-8 file: {r}"


def _uptime(ts_prev, ts_now, ms, flags="A"):
    import time
    import pyp0f.utils.time as t
    now = [1_700_000_000_000]
    orig = time.time_ns
    time.time_ns = lambda: now[0] * 10**6
    try:
        p0 = IP() / TCP(flags=flags, seq=1, options=[("Timestamp", (ts_prev, 0))])
        last = TCPPacketSignature.from_packet(parse_packet(p0))
        now[0] += ms
        p1 = IP() / TCP(flags=flags, seq=1, options=[("Timestamp", (ts_now, 0))])
        return fingerprint_uptime(p1, last)
    finally:
        time.time_ns = orig


def F25():
    out = []
    r = _uptime(1000, 1013, 130)
    if r.uptime is None or r.uptime.raw_frequency != 100.0:
        out.append(("13 ticks/130ms", r.tps, r.uptime and r.uptime.raw_frequency))
    r = _uptime(1000, 1008, 80)
    if r.tps != 100:
        out.append(("8 ticks/80ms (inside grace window, forward)", r.tps))
    r = _uptime(2**32 - 50, 50, 1000)
    if r.tps != 100:
        out.append(("wrap 2^32-50 -> 50 in 1 s", r.tps))
    r = _uptime(5000, 4000, 1000)
    if r.tps != -1:
        out.append(("backward 1000 ticks in 1 s on ACK", r.tps))
    if out:
        return f"uptime arithmetic: {out}"


def _imp_exact(sig, base, extra_hops=0, **kw):
    import random
    random.seed(1)
    out = impersonate_tcp(base, raw_signature=sig, extra_hops=extra_hops, **kw)
    out = out.__class__(bytes(out))
    s = TCPSignature.parse(sig)
    ps = TCPPacketSignature.from_packet(parse_packet(out))
    return tcp_signatures_match(s, ps, Options()), s.ttl - ps.ttl


def _imp_witness(sig, base, what, **kw):
    try:
        r = _imp_exact(sig, base, **kw)
    except Exception as e:
        return f"{what}: impersonate_tcp raised {type(e).__name__}: {e}"
    if r[0] is None or r[0].name != "EXACT" or r[1] != kw.get("extra_hops", 0):
        return f"{what}: result {r}"


def F06():
    return _imp_witness("*:64:0:*:8192,0:mss::0", IP() / TCP(flags="SEC", seq=1), "base with ECE|CWR")


def F07():
    return _imp_witness("*:64:0:*:8192,0:mss::0", Ether() / IP(src="10.0.0.1", dst="10.0.0.2") / TCP(flags="S", seq=1), "Ether base")


def F08():
    a = _imp_witness("*:64:0:*:mss*4,0:mss::0", IP() / TCP(flags="S", seq=1, options=[("MSS", 50)]), "MSS hint 50 with mss*4")
    b = _imp_witness("*:64:0:*:mss*4,0:mss::0", IP() / TCP(flags="S", seq=1, options=[("MSS", 16384)]), "MSS hint 16384 with mss*4")
    return a or b


def F09():
    return _imp_witness("*:64:0:*:8192,*:nop,ws::0", IP() / TCP(flags="S", seq=1, options=[("WScale", 200)]), "scale hint 200 without exws")


def F10():
    return _imp_witness("*:64:0:*:8192,0:nop,nop,ts::0", IP() / TCP(flags="S", seq=1, options=[("Timestamp", (0, 0))]), "ts1 hint 0 without ts1-")


def F12():
    a = _imp_witness("*:64:0:*:%40000,0:mss::0", IP() / TCP(flags="S", seq=1), "%40000")
    b = _imp_witness("*:64:0:*:mss*655,0:mss::0", IP() / TCP(flags="S", seq=1), "mss*655")
    return a or b


def F14():
    import random
    for seed in range(40):
        random.seed(seed)
        out = impersonate_tcp(IP() / TCP(flags="S", seq=1), raw_signature="*:64:0:*:8192,0:nop,nop,sack::0")
        out = out.__class__(bytes(out))
        ps = TCPPacketSignature.from_packet(parse_packet(out))
        r = tcp_signatures_match(TCPSignature.parse("*:64:0:*:8192,0:nop,nop,sack::0"), ps, Options())
        if r is None or r.name != "EXACT":
            return f"nop,nop,sack (seed {seed}): layout {ps.options.dump()} quirks {ps.quirks} -> {r}"


def F15():
    return _imp_witness("*:64:0:1331:1337,0:mss,nop,eol+18::0", IP() / TCP(flags="S", seq=1), "mss,nop,eol+18")


def F16():
    a = _imp_witness("*:64:0:*:8192,0:mss,?30,nop,nop::0", IP() / TCP(flags="S", seq=1), "?30 kind")
    b = _imp_witness("4:64:4:*:8192,0:mss::0", IP() / TCP(flags="S", seq=1), "olen 4")
    return a or b


ALL = [F01, F02, F04, F05, F06, F07, F08, F09, F10, F12, F14, F15, F16, F18, F19, F20, F21, F22, F23, F24, F25]

if __name__ == "__main__":
    want = sys.argv[1:]
    bad = 0
    for f in ALL:
        if want and f.__name__ not in want:
            continue
        try:
            r = f()
        except Exception as e:
            r = f"witness itself raised {type(e).__name__}: {e}"
        print(f"{f.__name__}: {'holds' if r is None else 'FAILS - ' + r}")
        bad += r is not None
    sys.exit(1 if bad else 0)
